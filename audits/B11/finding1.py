"""BasebandReader hands DADA (time, pol, chan) data to signal classes that
interpret axis 1 as frequency and axis 2 as polarisation, without transposing."""
import sys, os, tempfile, warnings
warnings.simplefilter("ignore")
import numpy as np
import astropy.units as u
import baseband
from baseband import dada

root = sys.argv[1] if len(sys.argv) > 1 else "/tmp/audit_B11"
sys.path.insert(0, root)
import pulsarbat as pb
from pulsarbat.readers import BasebandReader

sample = os.path.join(root, "tests", "data", "sample.dada")
with baseband.open(sample, "rs") as fh:
    h0 = fh.header0.copy()

tmp = tempfile.mkdtemp(prefix="finding1_")
rng = np.random.default_rng(0)


def write(name, nchan, npol=2, bw=16.0, freq=320.0, n=256, spf=64):
    h = h0.copy()
    h["NCHAN"], h["NPOL"], h["NDIM"] = nchan, npol, 2
    h["BW"], h["FREQ"], h["OBS_OFFSET"] = bw, freq, 0
    h["TSAMP"] = 1.0 / (bw / nchan)          # microseconds, complex sampling
    h.payload_nbytes = spf * npol * nchan * 2
    sh = (n, npol, nchan)
    z = (rng.integers(-100, 100, sh) + 1j * rng.integers(-100, 100, sh)).astype(np.complex64)
    with dada.open(name, "ws", header0=h, squeeze=False) as fw:
        fw.write(z)
    return z


bad = 0

# --- case A: NCHAN=2, NPOL=2: silent swap of the channel and polarisation axes
fA = os.path.join(tmp, "c2p2.dada")
zA = write(fA, nchan=2)
with baseband.open(fA, "rs") as fh:
    print("A: baseband sample_shape for the file:", fh.sample_shape)
r = BasebandReader(fA, signal_type=pb.DualPolarizationSignal,
                   signal_kwargs=dict(center_freq=320 * u.MHz, pol_type="linear"))
x = r.read(0, 16)
xa = np.asarray(x)
print("A: signal axes labels: time=0, freq=%d, pol=%d" % (x.get_axis("freq"), x.get_axis("pol")))
print("A: channel_freqs:", x.channel_freqs)
exp = zA[:16, 0, 1]   # file: polarisation 0 of channel 1 (324 MHz)
got = xa[:, 1, 0]     # signal: channel 1 (324 MHz), polarisation 0
print("A expected: x[:, chan=1, pol=0] == file[pol=0, chan=1]")
print("A observed: equal to file[pol=0, chan=1]: %s ; equal to file[pol=1, chan=0]: %s"
      % (np.array_equal(got, exp), np.array_equal(got, zA[:16, 1, 0])))
if not np.array_equal(got, exp):
    bad += 1
yd = np.asarray(r.dask_read(0, 16).data.compute())
print("A: dask read shows the same swap:", np.array_equal(yd, xa))

# --- case B: NCHAN=4, NPOL=2: the polarisation axis is presented as the channel axis
fB = os.path.join(tmp, "c4p2.dada")
zB = write(fB, nchan=4)
r = BasebandReader(fB, signal_type=pb.BasebandSignal, signal_kwargs=dict(center_freq=320 * u.MHz))
x = r.read(0, 16)
fk = 320.0 - 16.0 / 2 + (np.arange(4) + 0.5) * 16.0 / 4
print("B expected: nchan=4, channel_freqs=%s MHz, shape (16, 4, 2)" % fk)
print("B observed: nchan=%d, channel_freqs=%s, shape %s" % (x.nchan, x.channel_freqs, x.shape))
if x.nchan != 4 or x.shape != (16, 4, 2):
    bad += 1

# --- case C: the shipped sample.dada (NCHAN=1, NPOL=2)
r = BasebandReader(sample, signal_type=pb.BasebandSignal, signal_kwargs=dict(center_freq=320 * u.MHz))
x = r.read(0, 4)
print("C expected (sample.dada, NCHAN=1, NPOL=2, FREQ=320, BW=16): one channel at 320 MHz")
print("C observed: nchan=%d, channel_freqs=%s (the two polarisations are presented as two channels)"
      % (x.nchan, x.channel_freqs))
if x.nchan != 1:
    bad += 1

print("VIOLATION" if bad else "no violation")
sys.exit(1 if bad else 0)
