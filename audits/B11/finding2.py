"""A reader built on a relative file name re-resolves that name against the
process' current directory on EVERY read (eager, lazy and unpickled), so the same
(offset, n) on the same reader object returns different data or raises after a chdir."""
import sys, os, tempfile, shutil, pickle, warnings
warnings.simplefilter("ignore")
import numpy as np
import baseband
from baseband import vdif

root = sys.argv[1] if len(sys.argv) > 1 else "/tmp/audit_B11"
sys.path.insert(0, root)
from pulsarbat.readers import BasebandReader

src = os.path.join(root, "tests", "data", "sample.vdif")
tmp = tempfile.mkdtemp(prefix="finding2_")
A, B, C = (os.path.join(tmp, k) for k in "ABC")
for k in (A, B, C):
    os.mkdir(k)
shutil.copy(src, os.path.join(A, "x.vdif"))
# B/x.vdif: a different, equally valid file with the same name (sign-flipped samples)
with baseband.open(src, "rs") as fh:
    dat = fh.read()
    with vdif.open(os.path.join(B, "x.vdif"), "ws", header0=fh.header0,
                   sample_rate=fh.sample_rate, nthread=8) as fw:
        fw.write(-dat)

cwd0 = os.getcwd()
bad = 0
try:
    os.chdir(A)
    r = BasebandReader("x.vdif")            # validated against A/x.vdif
    ref = np.asarray(r.read(10, 100))
    lazy = r.dask_read(10, 100)
    blob = pickle.dumps(r)

    os.chdir(B)                             # a same-named, different file lives here
    got = np.asarray(r.read(10, 100))
    print("expected: r.read(10, 100) returns the same data before and after os.chdir")
    print("observed: same reader, same (offset, n), equal = %s (max |diff| = %g)"
          % (np.array_equal(got, ref), np.abs(got - ref).max()))
    bad += not np.array_equal(got, ref)
    got = np.asarray(lazy.data.compute())
    print("observed: lazy read built before chdir, computed after: equal = %s" % np.array_equal(got, ref))
    bad += not np.array_equal(got, ref)
    got = np.asarray(pickle.loads(blob).read(10, 100))
    print("observed: reader unpickled after chdir: equal = %s" % np.array_equal(got, ref))
    bad += not np.array_equal(got, ref)

    os.chdir(C)                             # no such file here
    for what, fn in [("eager read", lambda: r.read(10, 100)),
                     ("lazy compute", lambda: lazy.data.compute()),
                     ("unpickled read", lambda: pickle.loads(blob).read(10, 100))]:
        try:
            ok = np.array_equal(np.asarray(fn() if what != "lazy compute" else fn()), ref)
            print("observed in dir without the file: %s equal = %s" % (what, ok))
            bad += not ok
        except Exception as e:
            print("observed in dir without the file: %s raises %s for an in-range request"
                  % (what, type(e).__name__))
            bad += 1
finally:
    os.chdir(cwd0)

print("VIOLATION" if bad else "no violation")
sys.exit(1 if bad else 0)
