"""signal_transform on a Dask-backed signal declares shape/chunks (and infers dtype) from
map_blocks defaults: a function that changes the length gives a wrong lazy shape, and a function
that is undefined for a 1-sample dummy block cannot be applied at all."""
import sys, warnings
warnings.filterwarnings("ignore")
sys.path.insert(0, sys.argv[1] if len(sys.argv) > 1 else ".")
import numpy as np, dask.array as da, astropy.units as u
import pulsarbat as pb


@pb.signal_transform
def decimate2(x):
    return x[::2]


@pb.signal_transform
def time_gradient(x):
    return np.gradient(x, axis=0)


rng = np.random.default_rng(0)
a = rng.standard_normal((16, 4)) + 1j * rng.standard_normal((16, 4))
kw = dict(sample_rate=1 * u.MHz, center_freq=400 * u.MHz)
sn = pb.BasebandSignal(a, **kw)
sd = pb.BasebandSignal(da.from_array(a, chunks=(16, 2)), **kw)   # time axis NOT chunked
skw = dict(signal_kwargs=dict(sample_rate=0.5 * u.MHz))

bad = False
rn, rd = decimate2(sn, **skw), decimate2(sd, **skw)
cd = rd.compute(scheduler="synchronous")
print("decimate2: NumPy shape", rn.shape, "time_length", rn.time_length)
print("           Dask lazy shape", rd.shape, "time_length", rd.time_length, "| after compute", cd.shape)
if rd.shape != rn.shape:
    print("  VIOLATION: lazy shape/len/time_length differ from the NumPy result and from the computed data")
    bad = True
tail_n = rn[8:]
try:
    tail_d = rd[8:].compute(scheduler="synchronous")
    print("  follow-up op result[8:]: NumPy shape", tail_n.shape, "| Dask lazy", rd[8:].shape, "computed", tail_d.shape)
except Exception as e:
    print("  follow-up op result[8:] on Dask raised", type(e).__name__)

rn = time_gradient(sn)
print("time_gradient: NumPy path ok, shape", rn.shape)
try:
    rd = time_gradient(sd)
    ok = np.allclose(rd.compute(scheduler="synchronous").data, rn.data)
    print("               Dask path ok:", ok)
    bad |= not ok
except Exception as e:
    print("               Dask path raised", type(e).__name__ + ":", str(e).strip().splitlines()[0])
    print("  VIOLATION: works on NumPy, fails on Dask (dtype inference calls func on a 1-sample dummy)")
    bad = True
sys.exit(1 if bad else 0)
