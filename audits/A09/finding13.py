"""NumPy functions that are not ufuncs (np.round, np.clip, np.real, np.angle, np.mean, ...) applied to
a Dask-backed signal silently compute the whole graph via Signal.__array__ while 'building' the result."""
import sys, warnings
warnings.filterwarnings("ignore")
sys.path.insert(0, sys.argv[1] if len(sys.argv) > 1 else ".")
import numpy as np, dask, dask.array as da, astropy.units as u
import pulsarbat as pb

rng = np.random.default_rng(0)
a = rng.standard_normal((16, 4)) + 1j * rng.standard_normal((16, 4))
kw = dict(sample_rate=1 * u.MHz, center_freq=400 * u.MHz)
sn = pb.BasebandSignal(a, **kw)

loads = []
src = dask.delayed(lambda: (loads.append(1), a)[1], pure=False)()
sd = pb.BasebandSignal(da.from_delayed(src, shape=a.shape, dtype=a.dtype), **kw)

sched_calls = []
def recording_scheduler(dsk, keys, **kwargs):
    sched_calls.append(1)
    return dask.get(dsk, keys, **kwargs)

funcs = {"np.conj (ufunc, control)": np.conj, "np.round": lambda s: np.round(s, 1), "np.clip": lambda s: np.clip(s.to_intensity(), 0, 1),
         "np.real": np.real, "np.angle": np.angle, "np.mean(axis=0)": lambda s: np.mean(s, axis=0),
         "np.fft.fft": lambda s: np.fft.fft(s, axis=0)}
bad = False
with dask.config.set(scheduler=recording_scheduler):
    for label, fn in funcs.items():
        n0, l0 = len(sched_calls), len(loads)
        rn, rd = fn(sn), fn(sd)
        computed = (len(sched_calls) - n0, len(loads) - l0)
        lazy = isinstance(getattr(rd, "data", rd), da.Array)
        flag = computed != (0, 0) or not lazy
        if not label.endswith("control)"):
            bad |= flag
        print(f"{label:26s} NumPy-backed -> {type(rn).__name__:15s} Dask-backed -> {type(rd).__name__:15s} "
              f"lazy: {lazy}; scheduler calls while building: {computed[0]}, source loads: {computed[1]}"
              + ("   <-- hidden compute" if flag else ""))
    # array-level public helper: pulsarbat.utils.real_to_complex
    n0 = len(sched_calls)
    r = pb.utils.real_to_complex(da.from_array(a.real.copy(), chunks=(16, 2)), axis=0)
    flag = (len(sched_calls) - n0) != 0 or not isinstance(r, da.Array)
    bad |= flag
    print(f"{'utils.real_to_complex(dask)':26s} returns {type(r).__name__}; scheduler calls while building: {len(sched_calls) - n0}"
          + ("   <-- hidden compute" if flag else ""))
print("expected: building a result from a Dask-backed signal performs no computation and stays Dask-backed")
sys.exit(1 if bad else 0)
