"""ufunc keyword forms that work on NumPy-backed signals raise on Dask-backed ones."""
import sys, warnings
warnings.filterwarnings("ignore")
sys.path.insert(0, sys.argv[1] if len(sys.argv) > 1 else ".")
import numpy as np, dask.array as da, astropy.units as u
import pulsarbat as pb

rng = np.random.default_rng(0)
f = (rng.standard_normal((16, 4)) ** 2).astype(np.float32)
kw = dict(sample_rate=1 * u.MHz, center_freq=400 * u.MHz, chan_bw=1 * u.MHz)
mk = lambda dask_: pb.IntensitySignal(da.from_array(f.copy(), chunks=(8, 3)) if dask_ else f.copy(), **kw)

calls = {
    "np.add(s, 1, casting='unsafe')": lambda s: np.add(s, 1, casting="unsafe"),
    "np.add(s, 1.5, casting='same_kind', dtype=np.float32)": lambda s: np.add(s, 1.5, casting="same_kind", dtype=np.float32),
    "np.add(s, 1, order='C')": lambda s: np.add(s, 1, order="C"),
    "np.add(s, 1, subok=True)": lambda s: np.add(s, 1, subok=True),
    "np.add(s, 1, signature='ff->f')": lambda s: np.add(s, 1, signature="ff->f"),
    "np.modf(s, out=(a, b))": lambda s: np.modf(s, out=(type(s).like(s, s.data * 0), type(s).like(s, s.data * 0))),
    "np.modf(s, out=(None, b))": lambda s: np.modf(s, out=(None, type(s).like(s, s.data * 0))),
}
bad = False
for label, fn in calls.items():
    res = []
    for dask_ in (False, True):
        try:
            r = fn(mk(dask_))
            r = r if isinstance(r, tuple) else (r,)
            [x.compute(scheduler="synchronous") for x in r]
            res.append("ok")
        except Exception as e:
            res.append(f"{type(e).__name__}: {str(e)[:70]}")
    flag = res[0] != res[1]
    bad |= flag
    print(f"{label}\n    NumPy-backed: {res[0]}\n    Dask-backed : {res[1]}" + ("   <-- differs" if flag else ""))
print("expected: every ufunc call form accepted on a NumPy-backed signal works the same on a Dask-backed one")
sys.exit(1 if bad else 0)
