"""time_shift: the Dask path builds its phase ramp from dask.array.fft.fftfreq, the NumPy path from
numpy.fft.fftfreq; they differ by 1 ulp and the ramp is then rounded to complex64, so complex128
results differ by ~1e-10 relative (hundreds of thousands of float64 eps), far above FFT rounding."""
import sys, warnings
warnings.filterwarnings("ignore")
sys.path.insert(0, sys.argv[1] if len(sys.argv) > 1 else ".")
import numpy as np, dask.array as da, astropy.units as u
import pulsarbat as pb

eps = np.finfo(np.float64).eps
bad = False
for N, shift in ((10007, 3252.575), (20000, 3500.3), (100003, -40000.7), (16384, 3252.575)):
    rng = np.random.default_rng(1)
    a = rng.standard_normal((N, 2)) + 1j * rng.standard_normal((N, 2))
    kw = dict(sample_rate=1 * u.MHz, center_freq=400 * u.MHz)
    sn = pb.BasebandSignal(a, **kw)
    sd = pb.BasebandSignal(da.from_array(a, chunks=(N, 1)), **kw)
    rn = pb.time_shift(sn, shift).data
    rd = pb.time_shift(sd, shift).compute(scheduler="synchronous").data
    rel = float(np.abs(rn - rd).max() / np.abs(rn).max())
    # how much two *correct* evaluations of the same formula may differ: same ramp, FFT done per column
    f1 = np.fft.fftfreq(N, 1)
    f2 = da.fft.fftfreq(N, 1, chunks=(-1,)).compute()
    p1 = np.exp(-2j * np.pi * shift * f1).astype(np.complex64)
    p2 = np.exp(-2j * np.pi * shift * f2).astype(np.complex64)
    budget = 16 * eps * (1 + np.log2(N)) * 2 + 4 * eps          # generous: two FFT ops + elementwise
    flag = rel > budget
    bad |= flag
    print(f"N={N:6d} shift={shift:10.3f}: fftfreq values differing by 1 ulp: {np.count_nonzero(f1 != f2):6d}, "
          f"complex64 ramp entries differing: {np.count_nonzero(p1 != p2):3d}, "
          f"max rel |numpy - dask| = {rel:.2e} = {rel/eps:9.0f} eps (rounding budget {budget/eps:.0f} eps)"
          + ("  <-- VIOLATION" if flag else ""))
print("expected: complex128 results equal to within FFT rounding (tens of eps); a power-of-two N")
print("(fftfreq exact in both libraries) agrees to 0, other N do not.")
sys.exit(1 if bad else 0)
