"""Chunk sizes unknown (NaN) on a sample axis - obtained with the public __getitem__ and a Dask
boolean mask - break most operations on the Dask path (and the lazy shape differs from NumPy)."""
import sys, warnings
warnings.filterwarnings("ignore")
sys.path.insert(0, sys.argv[1] if len(sys.argv) > 1 else ".")
import numpy as np, dask.array as da, astropy.units as u
import pulsarbat as pb

rng = np.random.default_rng(0)
a = rng.standard_normal((12, 4, 3)) + 1j * rng.standard_normal((12, 4, 3))
mask = np.array([True, False, True])
kw = dict(sample_rate=1 * u.MHz, center_freq=400 * u.MHz)
zn = pb.BasebandSignal(a, **kw)[:, :, mask]
zd = pb.BasebandSignal(da.from_array(a, chunks=(12, 3, 2)), **kw)[:, :, da.from_array(mask, chunks=2)]
print("selection with a boolean mask on the last axis: NumPy shape", zn.shape, "| Dask lazy shape", zd.shape,
      "| Dask computed shape", zd.compute(scheduler="synchronous").shape)

D = pb.DM(0.01)
ops = {
    "z + 1": lambda z: z + 1,
    "z.to_intensity()": lambda z: z.to_intensity(),
    "coherent_dedispersion": lambda z: pb.coherent_dedispersion(z, D),
    "time_shift(z, 1.5)": lambda z: pb.time_shift(z, 1.5),
    "freq_shift(z, 0.1 MHz)": lambda z: pb.freq_shift(z, 0.1 * u.MHz),
    "incoherent_dedispersion": lambda z: pb.incoherent_dedispersion(z, D),
    "contrib.stft(nperseg=4)": lambda z: pb.contrib.stft(z, nperseg=4),
    "z.rechunk()": lambda z: z.rechunk(),
    "z.rechunk(-1)": lambda z: z.rechunk(-1),
}
bad = False
for label, fn in ops.items():
    ref = fn(zn)
    try:
        got = fn(zd).compute(scheduler="synchronous")
        ok = got.shape == ref.shape and np.allclose(got.data, np.asarray(ref.compute().data), rtol=1e-12, atol=1e-12)
        msg = f"ok, values equal: {ok}"
        bad |= not ok
    except Exception as e:
        msg = f"raised {type(e).__name__}: {' '.join(str(e).split())[:60]}   <-- VIOLATION"
        bad = True
    print(f"{label:26s} NumPy: ok {ref.shape} | Dask: {msg}")

# a class with a fixed-size axis cannot even hold the selection
pn = pb.DualPolarizationSignal(a[..., :2], pol_type="linear", **kw)[:, :, np.array([True, True])]
try:
    pb.DualPolarizationSignal(da.from_array(a[..., :2], chunks=(12, 2, 1)), pol_type="linear", **kw)[:, :, da.from_array(np.array([True, True]), chunks=1)]
    print("DualPolarizationSignal[:, :, dask_mask] ok")
except Exception as e:
    print(f"DualPolarizationSignal[:, :, mask]: NumPy ok {pn.shape} | Dask raised {type(e).__name__}: {e}   <-- VIOLATION")
    bad = True
sys.exit(1 if bad else 0)
