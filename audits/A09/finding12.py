"""pulsarbat.fft functions accept every scipy.fft keyword on ndarrays but not on Dask arrays."""
import sys, warnings
warnings.filterwarnings("ignore")
sys.path.insert(0, sys.argv[1] if len(sys.argv) > 1 else ".")
import numpy as np, dask.array as da
import pulsarbat as pb

rng = np.random.default_rng(0)
a = rng.standard_normal((12, 6)) + 1j * rng.standard_normal((12, 6))
d = da.from_array(a, chunks=(12, 2))          # FFT axis (0) is a single chunk
calls = {
    "fft(x, axis=0, workers=2)": lambda x: pb.fft.fft(x, axis=0, workers=2),
    "fft(x, axis=0, overwrite_x=False)": lambda x: pb.fft.fft(x, axis=0, overwrite_x=False),
    "ifft(x, axis=0, workers=-1)": lambda x: pb.fft.ifft(x, axis=0, workers=-1),
    "fftn(x, axes=0)": lambda x: pb.fft.fftn(x, axes=0),
    "control fft(x, n=16, axis=0, norm='ortho')": lambda x: pb.fft.fft(x, n=16, axis=0, norm="ortho"),
}
bad = False
for label, fn in calls.items():
    ref = fn(a)
    try:
        got = fn(d)
        ok = isinstance(got, da.Array) and np.allclose(got.compute(scheduler="synchronous"), ref)
        msg = f"ok, lazy and equal: {ok}"
        bad |= not ok
    except Exception as e:
        msg = f"raised {type(e).__name__}: {' '.join(str(e).split())[:80]}   <-- differs"
        bad = True
    print(f"pb.fft.{label:45s} ndarray: ok | Dask: {msg}")
sys.exit(1 if bad else 0)
