"""In-place operators / ufunc out= on Dask-backed signals do not keep the signal's dtype
(NumPy casts into the existing buffer or raises; Dask silently rebinds to the new dtype)."""
import sys, warnings
warnings.filterwarnings("ignore")
sys.path.insert(0, sys.argv[1] if len(sys.argv) > 1 else ".")
import numpy as np, dask.array as da, astropy.units as u
import pulsarbat as pb

rng = np.random.default_rng(0)
f = (rng.standard_normal((16, 4)) ** 2).astype(np.float32)
kw = dict(sample_rate=1 * u.MHz, center_freq=400 * u.MHz, chan_bw=1 * u.MHz)


def pair():
    return (pb.IntensitySignal(f.copy(), **kw),
            pb.IntensitySignal(da.from_array(f.copy(), chunks=(8, 3)), **kw))


def attempt(label, op):
    out = []
    for s in pair():
        try:
            op(s)
            try:
                c = s.compute(scheduler="synchronous")
                out.append(f"ok, dtype {s.dtype}, computed dtype {c.dtype}")
            except Exception as e:
                out.append(f"built {type(s).__name__} with dtype {s.dtype}; compute raised {type(e).__name__}")
        except Exception as e:
            out.append(f"raised {type(e).__name__}")
    print(f"{label}\n    NumPy-backed: {out[0]}\n    Dask-backed : {out[1]}")
    return out[0] != out[1]


def iadd_f64(s):
    s += np.ones((16, 4))          # float64 operand, float32 signal


def imul_np_scalar(s):
    s *= np.float64(2)


def imul_complex(s):
    s *= 1j                          # complex into a real IntensitySignal


def out_kw(s):
    np.multiply(s, np.float64(2), out=s)


bad = False
bad |= attempt("float32 IntensitySignal: s += float64 array", iadd_f64)
bad |= attempt("float32 IntensitySignal: s *= np.float64(2)", imul_np_scalar)
bad |= attempt("float32 IntensitySignal: np.multiply(s, np.float64(2), out=s)", out_kw)
bad |= attempt("float32 IntensitySignal: s *= 1j", imul_complex)

# integer Signal: true division in place
si = pb.Signal(np.arange(64).reshape(16, 4), sample_rate=1 * u.Hz)
sdi = pb.Signal(da.from_array(np.arange(64).reshape(16, 4), chunks=(8, 2)), sample_rate=1 * u.Hz)
res = []
for s in (si, sdi):
    try:
        s /= 2
        res.append(f"ok, dtype {s.dtype}")
    except Exception as e:
        res.append(f"raised {type(e).__name__}")
print(f"int64 Signal: s /= 2\n    NumPy-backed: {res[0]}\n    Dask-backed : {res[1]}")
bad |= res[0] != res[1]

print("expected: same dtype / same exception on both containers")
sys.exit(1 if bad else 0)
