"""Signal.__getitem__ accepts arbitrary indices on the sample axes; several index forms that
NumPy-backed signals support raise on Dask-backed signals."""
import sys, warnings
warnings.filterwarnings("ignore")
sys.path.insert(0, sys.argv[1] if len(sys.argv) > 1 else ".")
import numpy as np, dask.array as da, astropy.units as u
import pulsarbat as pb

rng = np.random.default_rng(0)
a = rng.standard_normal((12, 4, 2))
sn = pb.Signal(a, sample_rate=1 * u.MHz)
sd = pb.Signal(da.from_array(a, chunks=(12, 3, 1)), sample_rate=1 * u.MHz)
b = rng.standard_normal((12, 4, 2, 3)) + 0j
kw = dict(sample_rate=1 * u.MHz, center_freq=400 * u.MHz)
bn = pb.BasebandSignal(b, **kw)
bd = pb.BasebandSignal(da.from_array(b, chunks=(12, 2, 1, 3)), **kw)

cases = {
    "Signal s[:, [0, 2], [0, 1]] (two index lists)": (sn, sd, lambda s: s[:, [0, 2], [0, 1]]),
    "Signal s[:, np.array([[0, 1], [1, 0]])] (2-D index array)": (sn, sd, lambda s: s[:, np.array([[0, 1], [1, 0]])]),
    "Signal s[:, mask2d] (boolean mask over both sample axes)": (sn, sd, lambda s: s[:, np.array([[1, 0], [0, 1], [1, 1], [0, 0]], bool)]),
    "BasebandSignal s[:, :, [0, 1], [0, 2]]": (bn, bd, lambda s: s[:, :, [0, 1], [0, 2]]),
    "control: s[:, [0, 2]] (one list)": (sn, sd, lambda s: s[:, [0, 2]]),
}
bad = False
for label, (n_, d_, fn) in cases.items():
    ref = fn(n_)
    try:
        got = fn(d_).compute(scheduler="synchronous")
        ok = got.shape == ref.shape and np.array_equal(got.data, ref.data)
        msg = f"ok, equal: {ok}"
        bad |= not ok
    except Exception as e:
        msg = f"raised {type(e).__name__}: {' '.join(str(e).split())[:70]}   <-- VIOLATION"
        bad = True
    print(f"{label}\n    NumPy-backed: ok, shape {ref.shape}\n    Dask-backed : {msg}")
sys.exit(1 if bad else 0)
