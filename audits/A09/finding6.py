"""pulsarbat.contrib.istft rejects Dask-backed signals that are chunked along the frequency
axis (a chunking OFF the time axis), while the NumPy path works."""
import sys, warnings
warnings.filterwarnings("ignore")
sys.path.insert(0, sys.argv[1] if len(sys.argv) > 1 else ".")
import numpy as np, dask.array as da, astropy.units as u
import pulsarbat as pb
from pulsarbat.contrib import stft, istft

rng = np.random.default_rng(0)
a = rng.standard_normal((12, 8, 2)) + 1j * rng.standard_normal((12, 8, 2))
kw = dict(sample_rate=1 * u.MHz, center_freq=400 * u.MHz, pol_type="linear")
sn = pb.DualPolarizationSignal(a, **kw)
ref = istft(sn, nperseg=4)
print("NumPy path: istft(nperseg=4) ->", ref.shape, ref.dtype)

bad = False
for chunks in ((12, 8, 2), (12, 4, 1), (12, 2, 2), (12, 1, 1), (12, 3, 2), ((12,), (5, 3), (2,))):
    sd = pb.DualPolarizationSignal(da.from_array(a, chunks=chunks), **kw)
    try:
        got = istft(sd, nperseg=4).compute(scheduler="synchronous")
        ok = got.shape == ref.shape and np.allclose(got.data, ref.data, rtol=1e-12, atol=1e-12)
        print(f"Dask chunks {chunks}: ok, equal to NumPy result: {ok}")
        bad |= not ok
    except Exception as e:
        print(f"Dask chunks {chunks}: raised {type(e).__name__}: {" ".join(str(e).split())[:75]}...   <-- VIOLATION")
        bad = True
print("expected: every chunking off the time axis (time axis is one chunk in all cases) is accepted")
sys.exit(1 if bad else 0)
