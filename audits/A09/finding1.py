"""signal_transform: keyword arguments meant for the wrapped function are swallowed by
dask.array.map_blocks when the signal is Dask-backed (dtype, name, chunks, meta, ...)."""
import sys, warnings
warnings.filterwarnings("ignore")
sys.path.insert(0, sys.argv[1] if len(sys.argv) > 1 else ".")
import numpy as np, dask.array as da, astropy.units as u
import pulsarbat as pb


@pb.signal_transform
def cast(x, dtype=np.complex128):
    """User transform with a keyword argument called ``dtype``."""
    return x.astype(dtype)


@pb.signal_transform
def scale(x, name=2.0):
    """User transform with a keyword argument called ``name``."""
    return x * name


rng = np.random.default_rng(0)
a = rng.standard_normal((16, 4)) + 1j * rng.standard_normal((16, 4))
kw = dict(sample_rate=1 * u.MHz, center_freq=400 * u.MHz)
sn = pb.BasebandSignal(a, **kw)
sd = pb.BasebandSignal(da.from_array(a, chunks=(16, 2)), **kw)

bad = False

rn = cast(sn, dtype=np.complex64)
rd = cast(sd, dtype=np.complex64)
cd = rd.compute(scheduler="synchronous")
print("cast(x, dtype=complex64)")
print("  expected (NumPy path): dtype", rn.dtype)
print("  Dask path: lazy dtype", rd.dtype, "| dtype after compute", cd.dtype)
if cd.dtype != rn.dtype or cd.dtype != rd.dtype:
    print("  VIOLATION: lazily declared dtype != computed dtype != NumPy result dtype")
    bad = True

rn = scale(sn, name=3.0)
print("scale(x, name=3.0)")
print("  expected (NumPy path): x*3, max|.| =", float(np.abs(rn.data).max()))
try:
    rd = scale(sd, name=3.0)
    cd = rd.compute(scheduler="synchronous")
    same = np.allclose(cd.data, rn.data)
    print("  Dask path: computed, equal to NumPy result:", same)
    bad |= not same
except Exception as e:
    print("  Dask path raised", type(e).__name__ + ":", str(e).splitlines()[0][:120])
    print("  VIOLATION: NumPy path works, Dask path fails (kwarg 'name' was taken by map_blocks)")
    bad = True

sys.exit(1 if bad else 0)
