"""signal_transform silently applies the function per Dask chunk: any non-elementwise
function gives chunk-layout-dependent values (time-axis chunking is accepted silently)."""
import sys, warnings
warnings.filterwarnings("ignore")
sys.path.insert(0, sys.argv[1] if len(sys.argv) > 1 else ".")
import numpy as np, dask.array as da, astropy.units as u
import pulsarbat as pb


@pb.signal_transform
def remove_mean(x):
    """Subtract the time average of every channel."""
    return x - x.mean(axis=0, keepdims=True)


@pb.signal_transform
def band_normalise(x):
    """Divide every sample by the rms over the channel axis."""
    return x / np.sqrt((np.abs(x) ** 2).mean(axis=1, keepdims=True))


@pb.signal_transform
def spectrum(x):
    """FFT along time (an 'FFT-based transform' written by a user)."""
    return np.fft.fft(x, axis=0)


rng = np.random.default_rng(0)
a = rng.standard_normal((16, 4)) + 1j * rng.standard_normal((16, 4)) + 3
kw = dict(sample_rate=1 * u.MHz, center_freq=400 * u.MHz)
sn = pb.BasebandSignal(a, **kw)

bad = False
for fn, chunks in ((remove_mean, (16, 4)), (remove_mean, (4, 4)), (spectrum, (8, 4)),
                   (band_normalise, (16, 4)), (band_normalise, (16, 1))):
    sd = pb.BasebandSignal(da.from_array(a, chunks=chunks), **kw)
    ref = fn(sn)
    try:
        got = fn(sd).compute(scheduler="synchronous")
        err = float(np.abs(got.data - ref.data).max() / np.abs(ref.data).max())
        msg = f"max rel. difference to NumPy result = {err:.3e}"
        wrong = err > 1e-12
    except Exception as e:  # a rejection at graph construction would be acceptable
        msg, wrong = f"raised {type(e).__name__}", False
    print(f"{fn.__name__:15s} chunks={chunks}: {msg}" + ("   <-- VIOLATION (accepted, wrong values)" if wrong else ""))
    bad |= wrong

print("expected: identical values for every chunking that is accepted (or a rejection when the")
print("graph is built); observed: chunked layouts are accepted and the values depend on the chunks.")
sys.exit(1 if bad else 0)
