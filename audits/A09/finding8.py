"""BaseReader.dask_read(offset, n, chunks=...) forwards ``chunks`` to ``_read_array``: a reader
subclass written to the documented ``_read_array(self, offset, n, /)`` signature reads fine with
NumPy and with Dask defaults, but fails at compute time as soon as the documented ``chunks``
keyword is used."""
import sys, warnings
warnings.filterwarnings("ignore")
sys.path.insert(0, sys.argv[1] if len(sys.argv) > 1 else ".")
import numpy as np, dask.array as da, astropy.units as u
import pulsarbat as pb
from pulsarbat.readers import BaseReader


class IndexReader(BaseReader):
    """Same pattern as tests/test_readers.py::IndexReader (signature of BaseReader._read_array)."""

    def __init__(self, shape):
        super().__init__(shape=shape, dtype=np.float64, sample_rate=1 * u.Hz, signal_type=pb.Signal)

    def _read_array(self, offset, n, /):
        x = np.arange(offset, offset + n, dtype=np.float64)
        return x[:, None] * np.ones(self.sample_shape)


r = IndexReader((100, 4))
ref = r.read(10, 20)
print("r.read(10, 20)                        ->", type(ref.data).__name__, ref.shape)
d0 = r.dask_read(10, 20).compute(scheduler="synchronous")
print("r.dask_read(10, 20).compute()         -> equal:", np.array_equal(d0.data, ref.data))
lazy = r.dask_read(10, 20, chunks=(-1, 2))
print("r.dask_read(10, 20, chunks=(-1, 2))   -> built", type(lazy.data).__name__, lazy.shape, "chunks", lazy.data.chunks)
bad = False
try:
    got = lazy.compute(scheduler="synchronous")
    ok = np.array_equal(got.data, ref.data)
    print("   .compute() -> equal:", ok)
    bad = not ok
except Exception as e:
    print("   .compute() raised", type(e).__name__ + ":", e)
    print("   VIOLATION: expected the same samples as r.read(10, 20), only the chunk layout should change")
    bad = True
sys.exit(1 if bad else 0)
