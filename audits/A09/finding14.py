"""FFT-based transforms on Dask-backed signals with many dimensions: graph construction allocates and
FFTs a dummy array of 8**ndim elements (dtype inference in dask's fft_wrap), so it costs seconds/GBs
for ndim 8-9 and fails with MemoryError beyond, while the NumPy path takes ~1 ms."""
import sys, time, resource, warnings
warnings.filterwarnings("ignore")
sys.path.insert(0, sys.argv[1] if len(sys.argv) > 1 else ".")
import numpy as np, dask.array as da, astropy.units as u
import pulsarbat as pb

# safety net so the demonstration cannot exhaust the machine: cap the address space at 6 GiB
resource.setrlimit(resource.RLIMIT_AS, (6 * 2**30, 6 * 2**30))

rng = np.random.default_rng(0)
bad = False
for ndim in (4, 7, 8, 10):
    shape = (16,) + (1,) * (ndim - 1)
    a = rng.standard_normal(shape) + 1j * rng.standard_normal(shape)
    sn = pb.Signal(a, sample_rate=1 * u.MHz)
    sd = pb.Signal(da.from_array(a, chunks=shape), sample_rate=1 * u.MHz)
    t0 = time.perf_counter(); rn = pb.time_shift(sn, 1.5); tn = time.perf_counter() - t0
    t0 = time.perf_counter()
    try:
        rd = pb.time_shift(sd, 1.5)
        td = time.perf_counter() - t0
        ok = np.allclose(rd.compute(scheduler="synchronous").data, rn.data)
        msg = f"graph built in {td:8.3f} s ({td / tn:9.0f} x NumPy's whole computation), values equal: {ok}"
        flag = not ok
    except MemoryError as e:
        msg, flag = f"graph construction raised MemoryError ({e})", True
    bad |= flag
    print(f"ndim={ndim:2d} (16 samples): NumPy {tn*1e3:6.2f} ms | Dask: {msg}" + ("   <-- VIOLATION" if flag else ""))
print("expected: building the lazy result is cheap and succeeds for every signal the NumPy path handles")
sys.exit(1 if bad else 0)
