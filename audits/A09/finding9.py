"""In-place operators: a time/frequency slice of a NumPy-backed signal is a view that follows
in-place updates of its parent (and vice versa); with Dask-backed signals it does not."""
import sys, warnings
warnings.filterwarnings("ignore")
sys.path.insert(0, sys.argv[1] if len(sys.argv) > 1 else ".")
import numpy as np, dask.array as da, astropy.units as u
import pulsarbat as pb

rng = np.random.default_rng(0)
a = rng.standard_normal((16, 4)) + 1j * rng.standard_normal((16, 4))
kw = dict(sample_rate=1 * u.MHz, center_freq=400 * u.MHz)


def scenario(dask_):
    s = pb.BasebandSignal(da.from_array(a.copy(), chunks=(16, 2)) if dask_ else a.copy(), **kw)
    v = s[4:8, 1:3]          # public slicing
    w = type(s).like(s)      # public constructor-like copy of the signal object
    s *= 2                   # public in-place operator on the parent
    v += 100                 # public in-place operator on the slice
    return [np.asarray(x.compute(scheduler="synchronous").data) for x in (s, v, w)]


sn, vn, wn = scenario(False)
sd, vd, wd = scenario(True)
names = ("parent s (after s*=2; v+=100)", "slice v = s[4:8, 1:3]", "w = type(s).like(s)")
bad = False
print("original sample a[4,1] =", np.round(a[4, 1], 3))
for name, x, y, ix in zip(names, (sn, vn, wn), (sd, vd, wd), ((4, 1), (0, 0), (4, 1))):
    same = np.allclose(x, y)
    bad |= not same
    print(f"{name:32s} sample{ix}: NumPy-backed {x[ix]:.3f} | Dask-backed {y[ix]:.3f} | all equal: {same}")
print("expected: identical sample values in all three signals on both containers")
sys.exit(1 if bad else 0)
