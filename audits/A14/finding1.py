"""finding1: time_shift(z, shift~0) returns the INPUT OBJECT itself, so the result aliases
the input (buffer, meta dict, everything) whereas every non-zero shift returns fresh data."""
import sys, warnings
warnings.filterwarnings("ignore")
if len(sys.argv) > 1:
    sys.path.insert(0, sys.argv[1])
import numpy as np, astropy.units as u, dask.array as da
from astropy.time import Time
import pulsarbat as pb

rng = np.random.default_rng(0)
buf = (rng.standard_normal((32, 2)) + 1j * rng.standard_normal((32, 2))).astype("c16")
x = pb.BasebandSignal(buf, sample_rate=1 * u.MHz, center_freq=1 * u.GHz,
                      start_time=Time("2020-01-01T00:00:00"), meta={"tag": "orig"})
bad = 0

# reference behaviour: a non-zero shift returns new data; in-place work on the result leaves x alone
before = buf.tobytes()
y = pb.time_shift(x, 0.5)
y *= 2
print("time_shift(x, 0.5): result is x ->", y is x, "| shares memory ->", np.shares_memory(y.data, buf),
      "| input bytes unchanged after `y *= 2` ->", buf.tobytes() == before)

for label, shift in [("0", 0), ("0.0*u.s", 0.0 * u.s), ("1e-9 (non-zero!)", 1e-9), ("np.zeros(2)", np.zeros(2))]:
    before = buf.tobytes()
    meta_before = dict(x.meta)
    y = pb.time_shift(x, shift)           # the public transform under test
    y *= 2                                # explicit in-place operator naming ONLY y
    y.meta["tag"] = "derived"             # edit the result's metadata
    changed = buf.tobytes() != before
    print(f"time_shift(x, {label}): expected a new signal (x bit-identical afterwards); "
          f"got result is x -> {y is x}, input buffer changed -> {changed}, "
          f"x.meta changed -> {x.meta != meta_before}")
    bad += (y is x) or changed
    x.meta["tag"] = "orig"
    buf[...] = np.frombuffer(before, dtype=buf.dtype).reshape(buf.shape)

# same with a Dask-backed input
xd = pb.BasebandSignal(da.from_array(buf.copy(), chunks=(-1, 1)), sample_rate=1 * u.MHz, center_freq=1 * u.GHz)
ref = xd.compute().data.copy()
yd = pb.time_shift(xd, 0)
yd += 1
chg = not np.array_equal(xd.compute().data, ref)
print(f"Dask input: time_shift(xd, 0) is xd -> {yd is xd}; xd.compute() changed after `yd += 1` -> {chg}")
bad += chg

print("VIOLATION REPRODUCED" if bad else "not reproduced")
sys.exit(1 if bad else 0)
