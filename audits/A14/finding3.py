"""finding3: on a Dask-backed signal, rechunk(<current chunks>) and to_dask_array() return a
signal holding the SAME dask Array object as the receiver; an in-place operator on the result
rewrites the receiver. rechunk to different chunks (or plain dask semantics) leaves it alone."""
import sys, warnings
warnings.filterwarnings("ignore")
if len(sys.argv) > 1:
    sys.path.insert(0, sys.argv[1])
import numpy as np, astropy.units as u, dask.array as da
import pulsarbat as pb

buf = np.arange(64, dtype="f8").reshape(16, 4)
def mk():
    return pb.Signal(da.from_array(buf.copy(), chunks=(-1, 2)), sample_rate=1 * u.kHz)
def snapshot(sig):
    return (sig.data.name, sig.data.chunks, sig.compute().data.tobytes())

# what plain dask does with the same aliasing: no mutation, `b *= 2` just rebinds b
a = da.from_array(buf.copy(), chunks=(-1, 2)); b = a.rechunk(a.chunks); same = b is a; n = a.name; b *= 2
print("plain dask: a.rechunk(a.chunks) is a ->", same, "| a unchanged after `b *= 2` ->", a.name == n)

bad = 0
for label, call in [
    ("x.rechunk((-1, 2))   [= current chunks]", lambda x: x.rechunk((-1, 2))),
    ("x.rechunk(x.data.chunks)", lambda x: x.rechunk(x.data.chunks)),
    ("x.rechunk({1: 2})", lambda x: x.rechunk({1: 2})),
    ("x.to_dask_array()", lambda x: x.to_dask_array()),
    ("x.rechunk((-1, 1))   [different chunks: control]", lambda x: x.rechunk((-1, 1))),
]:
    x = mk(); s0 = snapshot(x)
    y = call(x)
    y *= 2                        # explicit in-place operator naming ONLY y
    s1 = snapshot(x)
    print(f"{label}: expected receiver unchanged; result.data is x.data -> {y.data is x.data}; "
          f"receiver's dask name changed -> {s0[0] != s1[0]}; computed values changed -> {s0[2] != s1[2]}")
    if "control" not in label:
        bad += s0 != s1

print("VIOLATION REPRODUCED" if bad else "not reproduced")
sys.exit(1 if bad else 0)
