"""finding5: meta is only shallow-copied, so the caller's meta argument, the signal, and every
derived signal share the nested objects; editing the DERIVED signal's meta changes the input's.
Likewise .axes_labels hands out the class-level dict shared by every signal of that class."""
import sys, warnings, copy
warnings.filterwarnings("ignore")
if len(sys.argv) > 1:
    sys.path.insert(0, sys.argv[1])
import numpy as np, astropy.units as u
from astropy.time import Time
import pulsarbat as pb

rng = np.random.default_rng(0)
buf = (rng.standard_normal((32, 4)) + 1j * rng.standard_normal((32, 4)))
user_meta = {"history": ["recorded"], "cal": np.array([1.0, 2.0, 3.0]), "hdr": {"TELESCOPE": "GBT"}}
x = pb.BasebandSignal(buf, sample_rate=1 * u.MHz, center_freq=400 * u.MHz,
                      start_time=Time("2020-01-01T00:00:00"), meta=user_meta)

def msnap(m):
    return (list(m["history"]), m["cal"].tobytes(), dict(m["hdr"]))

derive = {
    "x[4:20]": lambda: x[4:20],
    "x * 2": lambda: x * 2,
    "time_shift(x, 2.5)": lambda: pb.time_shift(x, 2.5),
    "coherent_dedispersion(x, DM(1))": lambda: pb.coherent_dedispersion(x, pb.DM(1.0)),
    "concatenate([x[:16], x[16:]])": lambda: pb.concatenate([x[:16], x[16:]]),
    "x.to_dask_array().compute()": lambda: x.to_dask_array().compute(),
}
bad = 0
for label, f in derive.items():
    s0 = (msnap(x.meta), msnap(user_meta))
    y = f()
    y.meta["history"].append("processed")     # bookkeeping on the RESULT only
    y.meta["cal"] *= 10                       # in-place operator on the result's calibration array
    y.meta["hdr"]["TELESCOPE"] = "changed"
    s1 = (msnap(x.meta), msnap(user_meta))
    print(f"y = {label}; edit y.meta -> expected x.meta/history == ['recorded'], cal == [1,2,3]; "
          f"got x.meta['history']={x.meta['history']}, x.meta['cal']={x.meta['cal']}, "
          f"x.meta['hdr']={x.meta['hdr']}, caller's dict changed -> {s0[1] != s1[1]}")
    bad += s0 != s1
    user_meta["history"][:] = ["recorded"]; user_meta["cal"][:] = [1, 2, 3]; user_meta["hdr"]["TELESCOPE"] = "GBT"

# axes_labels: a property returning the class attribute itself
before = dict(x.axes_labels)
y = x[4:20]
y.axes_labels["pol"] = 2
other = pb.BasebandSignal(buf.copy(), sample_rate=1 * u.MHz, center_freq=400 * u.MHz)
print(f"y = x[4:20]; y.axes_labels['pol'] = 2 -> expected x.axes_labels == {before}; got {x.axes_labels}; "
      f"an unrelated new BasebandSignal now has {other.axes_labels}")
bad += dict(x.axes_labels) != before
del pb.BasebandSignal._axes_labels["pol"]

print("VIOLATION REPRODUCED" if bad else "not reproduced")
sys.exit(1 if bad else 0)
