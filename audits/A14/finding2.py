"""finding2: concatenate([x]) (and concatenate([x, empty])) on a Dask-backed signal returns a
signal whose .data IS x.data (same dask Array object); an in-place operator on the result then
rewrites x's graph. With NumPy-backed input the same call copies."""
import sys, warnings
warnings.filterwarnings("ignore")
if len(sys.argv) > 1:
    sys.path.insert(0, sys.argv[1])
import numpy as np, astropy.units as u, dask.array as da
from astropy.time import Time
import pulsarbat as pb

buf = np.arange(64, dtype="f8").reshape(16, 4)
kw = dict(sample_rate=1 * u.kHz, center_freq=1 * u.GHz, chan_bw=1 * u.MHz, start_time=Time("2020-01-01T00:00:00"))
bad = 0

# NumPy-backed reference: np.concatenate copies, input stays bit-identical
xn = pb.RadioSignal(buf.copy(), **kw)
before = xn.data.tobytes()
yn = pb.concatenate([xn]); yn += 1
print("NumPy-backed: shares memory ->", np.shares_memory(yn.data, xn.data), "| input unchanged ->", xn.data.tobytes() == before)

def snapshot(sig):
    return (sig.data.name, sig.data.chunks, sig.compute().data.tobytes())

for label, call in [
    ("concatenate([x])", lambda x: pb.concatenate([x])),
    ("concatenate([x], axis='freq')", lambda x: pb.concatenate([x], axis="freq")),
    ("concatenate([x, x[16:16]])  (second piece empty)", lambda x: pb.concatenate([x, x[16:16]])),
]:
    x = pb.RadioSignal(da.from_array(buf.copy(), chunks=(-1, 2)), **kw)
    s0 = snapshot(x)
    y = call(x)                  # public concatenation
    s1 = snapshot(x)
    y += 1                       # explicit in-place operator naming ONLY y
    s2 = snapshot(x)
    print(f"Dask-backed {label}: expected x unchanged (name/chunks/computed bytes identical); "
          f"result.data is x.data -> {y.data is x.data}; after call identical -> {s0 == s1}; "
          f"after `y += 1`: dask name changed -> {s0[0] != s2[0]}, computed values changed -> {s0[2] != s2[2]}")
    bad += s0 != s2

print("VIOLATION REPRODUCED" if bad else "not reproduced")
sys.exit(1 if bad else 0)
