"""finding6: start_time is rebuilt with Time(start_time, format="isot", precision=9), which does
not copy: the jd1/jd2 arrays of the caller's Time argument, of the signal's start_time and of
every derived signal whose start is unchanged are the same buffers. Assigning into the derived
signal's start_time (Time supports item assignment) retimes the input and the caller's Time."""
import sys, warnings
warnings.filterwarnings("ignore")
if len(sys.argv) > 1:
    sys.path.insert(0, sys.argv[1])
import numpy as np, astropy.units as u
from astropy.time import Time
import pulsarbat as pb

def tsnap(t):
    return (np.asarray(t._time.jd1).tobytes(), np.asarray(t._time.jd2).tobytes(), t.scale, t.format, t.precision)

def raw(t):
    return Time(float(t._time.jd1), float(t._time.jd2), format="jd", scale=t.scale).isot

rng = np.random.default_rng(0)
buf = (rng.standard_normal((32, 4)) + 1j * rng.standard_normal((32, 4)))
t_arg = Time(59000.25, format="mjd", precision=3)        # caller's argument
x = pb.BasebandSignal(buf, sample_rate=1 * u.MHz, center_freq=400 * u.MHz, start_time=t_arg)
print("constructor leaves format/precision of the argument alone:", t_arg.format, t_arg.precision)
print("jd1 buffer shared  arg<->x:", np.shares_memory(t_arg._time.jd1, x.start_time._time.jd1))

derive = {
    "x + 1": lambda: x + 1,
    "time_shift(x, 2.5)": lambda: pb.time_shift(x, 2.5),
    "freq_shift(x, 10 kHz)": lambda: pb.freq_shift(x, 10 * u.kHz),
    "x.to_intensity()": lambda: x.to_intensity(),
    "BasebandSignal.like(x)": lambda: pb.BasebandSignal.like(x),
}
bad = 0
for label, f in derive.items():
    s0 = (tsnap(x.start_time), tsnap(t_arg)); iso0 = x.start_time.isot
    y = f()
    shared = np.shares_memory(y.start_time._time.jd1, x.start_time._time.jd1)
    y.start_time[()] = Time("2031-05-05T05:05:05")      # in-place assignment naming ONLY y's start_time
    s1 = (tsnap(x.start_time), tsnap(t_arg))
    print(f"y = {label}; y.start_time[()] = 2031-05-05 -> expected x.start_time == {iso0}; "
          f"jd buffers shared -> {shared}; got x.start_time (from its jd1+jd2) = {raw(x.start_time)}, "
          f"x.stop_time = {x.stop_time.isot}, caller's Time = {raw(t_arg)} "
          f"(x.start_time.isot still prints the stale cached string {x.start_time.isot})")
    bad += s0 != s1
    x.start_time[()] = Time(59000.25, format="mjd")     # restore (names x: sanctioned)

print("VIOLATION REPRODUCED" if bad else "not reproduced")
sys.exit(1 if bad else 0)
