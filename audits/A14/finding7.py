"""finding7: a reader hands its own sample_rate / center_freq / chan_bw Quantity objects (and the
meta values from signal_kwargs) to every signal it returns. An in-place operator on the attribute
of ONE returned signal modifies the reader itself and every PREVIOUSLY returned signal."""
import sys, os, warnings
warnings.filterwarnings("ignore")
root = sys.argv[1] if len(sys.argv) > 1 else "/tmp/audit_A14"
sys.path.insert(0, root)
import numpy as np, astropy.units as u
import pulsarbat as pb

def qsnap(q):
    return (q.view(np.ndarray).tobytes(), str(q.unit))

data = os.path.join(root, "tests", "data")
bad = 0

r = pb.readers.GUPPIRawReader(os.path.join(data, "fake.0.raw"))
s1 = r.read(0, 16)                       # previously returned signal
s2 = r.read(16, 16)
before = dict(r_sr=qsnap(r.sample_rate), s1_sr=qsnap(s1.sample_rate), s1_cf=qsnap(s1.center_freq),
              r_cf=qsnap(r.center_freq), r_len=r.time_length, r_t16=r.time_at(16).isot, s1_stop=s1.stop_time.isot)
s2.sample_rate *= 2                      # explicit in-place operators naming ONLY s2
s2.center_freq += 1 * u.MHz
after = dict(r_sr=qsnap(r.sample_rate), s1_sr=qsnap(s1.sample_rate), s1_cf=qsnap(s1.center_freq),
             r_cf=qsnap(r.center_freq), r_len=r.time_length, r_t16=r.time_at(16).isot, s1_stop=s1.stop_time.isot)
s3 = r.read(16, 16)                      # same request as s2, after the edit
print("GUPPIRawReader: s1 = r.read(0,16); s2 = r.read(16,16); s2.sample_rate *= 2; s2.center_freq += 1 MHz")
print("  expected: reader and s1 unchanged (sample_rate 3.125 MHz, center_freq 344.1875 MHz)")
print(f"  got: r.sample_rate={r.sample_rate}, s1.sample_rate={s1.sample_rate}, s1.chan_bw={s1.chan_bw}, "
      f"r.center_freq={r.center_freq}, s1.center_freq={s1.center_freq}")
print(f"       r.time_length {before['r_len']} -> {after['r_len']}; s1.stop_time {before['s1_stop']} -> {after['s1_stop']}; "
      f"r.read(16,16).start_time {before['r_t16']} -> {s3.start_time.isot}")
bad += before != after

# generic BasebandReader with user-supplied signal_kwargs (caller's Quantity and meta)
cf = 800.0 * u.MHz
meta = {"history": ["raw"]}
r = pb.readers.BasebandReader(os.path.join(data, "sample.dada"), signal_type=pb.BasebandSignal,
                              signal_kwargs={"center_freq": cf, "meta": meta})
s1 = r.read(0, 8); s2 = r.read(8, 8)
b = (qsnap(cf), qsnap(s1.center_freq), list(s1.meta["history"]), list(meta["history"]))
s2.center_freq <<= u.GHz
s2.meta["history"].append("calibrated")
a = (qsnap(cf), qsnap(s1.center_freq), list(s1.meta["history"]), list(meta["history"]))
print("BasebandReader(signal_kwargs={'center_freq': cf, 'meta': meta}): edit s2.center_freq / s2.meta in place")
print(f"  expected: cf == 800.0 MHz, s1.meta['history'] == ['raw']; got cf={cf}, s1.center_freq={s1.center_freq}, "
      f"s1.meta={s1.meta}, caller's meta={meta}, next read meta={r.read(0, 4).meta}")
bad += a != b

print("VIOLATION REPRODUCED" if bad else "not reproduced")
sys.exit(1 if bad else 0)
