"""finding4: sample_rate / center_freq / chan_bw Quantities are stored and propagated BY REFERENCE:
the caller's argument, the signal, and every signal derived from it (slice, like, ufunc result,
time_shift, dedispersion, ...) hold the same Quantity object. An in-place operator on the
attribute of a DERIVED signal therefore changes the input signal and the caller's argument."""
import sys, warnings
warnings.filterwarnings("ignore")
if len(sys.argv) > 1:
    sys.path.insert(0, sys.argv[1])
import numpy as np, astropy.units as u
from astropy.time import Time
import pulsarbat as pb

def qsnap(q):
    return (q.view(np.ndarray).tobytes(), str(q.unit))

rng = np.random.default_rng(0)
buf = (rng.standard_normal((32, 4)) + 1j * rng.standard_normal((32, 4)))
sr = 1.0 * u.MHz            # caller's arguments
cf = 400.0 * u.MHz
x = pb.BasebandSignal(buf, sample_rate=sr, center_freq=cf, start_time=Time("2020-01-01T00:00:00"))

derive = {
    "x[4:20]": lambda: x[4:20],
    "x + 1": lambda: x + 1,
    "time_shift(x, 2.5)": lambda: pb.time_shift(x, 2.5),
    "freq_shift(x, 10 kHz)": lambda: pb.freq_shift(x, 10 * u.kHz),
    "coherent_dedispersion(x, DM(1))": lambda: pb.coherent_dedispersion(x, pb.DM(1.0)),
    "x.to_intensity()": lambda: x.to_intensity(),
    "concatenate([x[:16], x[16:]])": lambda: pb.concatenate([x[:16], x[16:]]),
}
bad = 0
for label, f in derive.items():
    s0 = (qsnap(x.sample_rate), qsnap(x.chan_bw), qsnap(sr), x.dt, x.time_length, x.stop_time.isot)
    y = f()
    y.sample_rate *= 2          # explicit in-place operator naming ONLY y
    s1 = (qsnap(x.sample_rate), qsnap(x.chan_bw), qsnap(sr), x.dt, x.time_length, x.stop_time.isot)
    print(f"y = {label}; y.sample_rate *= 2 -> expected x.sample_rate == 1 MHz and caller's sr == 1 MHz; "
          f"got x.sample_rate={x.sample_rate}, x.chan_bw={x.chan_bw}, sr={sr}, x.stop_time {s0[5]} -> {s1[5]}")
    bad += s0 != s1
    x.sample_rate /= 2          # restore for the next round (this names x, so it is sanctioned)

s0 = (qsnap(x.center_freq), qsnap(cf))
y = x[4:20]
y.center_freq <<= u.GHz         # in-place unit conversion on the derived signal's attribute
y.center_freq += 0.1 * u.GHz
print(f"y = x[4:20]; y.center_freq <<= GHz; y.center_freq += 0.1 GHz -> expected x.center_freq 400.0 MHz; "
      f"got x.center_freq={x.center_freq}, caller's cf={cf}")
bad += s0 != (qsnap(x.center_freq), qsnap(cf))

print("VIOLATION REPRODUCED" if bad else "not reproduced")
sys.exit(1 if bad else 0)
