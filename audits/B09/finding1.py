"""pb.fft.{fftn,ifftn,rfftn,irfftn}(x, s=...) without axes= transforms different axes on Dask than on NumPy."""
import sys, warnings
sys.path.insert(0, sys.argv[1] if len(sys.argv) > 1 else "/tmp/audit_B09")
warnings.filterwarnings("ignore")
import numpy as np, dask.array as da
import pulsarbat as pb

rng = np.random.default_rng(0)
xc = rng.standard_normal((12, 6, 4)) + 1j * rng.standard_normal((12, 6, 4))
bad = 0
for name, x in [("fftn", xc), ("ifftn", xc), ("rfftn", xc.real), ("irfftn", xc)]:
    f = getattr(pb.fft, name)
    e = f(x, s=(5, 5))                                   # scipy: LAST len(s) axes
    lz = f(da.from_array(x, chunks=x.shape), s=(5, 5))   # dask fft_wrap: FIRST len(s) axes
    c = lz.compute()
    same = e.shape == lz.shape == c.shape and np.allclose(e, c)
    print(f"pb.fft.{name}(x[12,6,4], s=(5,5)): expected (NumPy) shape {e.shape}; "
          f"observed (Dask) lazy shape {lz.shape}, computed shape {c.shape}; equal={same}")
    # cross-check: the Dask result is the transform over axes (0, 1)
    alt = f(x, s=(5, 5), axes=(0, 1))
    print(f"    Dask result equals NumPy transform over axes=(0,1): {alt.shape == c.shape and np.allclose(alt, c)}")
    bad += not same
if bad:
    print(f"VIOLATION: {bad} of 4 functions return a different shape/values on Dask input")
    sys.exit(1)
print("no violation")
