"""compute()/persist() on a NumPy-backed signal strip an ndarray subclass (mask is lost); the Dask-backed equivalent keeps it."""
import sys, warnings
sys.path.insert(0, sys.argv[1] if len(sys.argv) > 1 else "/tmp/audit_B09")
warnings.filterwarnings("ignore")
import numpy as np, dask.array as da, astropy.units as u
import pulsarbat as pb

m = np.ma.masked_array(np.arange(8.0).reshape(4, 2), mask=[[False, True]] * 4)   # channel 1 flagged
sn = pb.Signal(m, sample_rate=1 * u.Hz)
sd = pb.Signal(da.from_array(m, chunks=(2, 2)), sample_rate=1 * u.Hz)
bad = 0
for name in ("compute", "persist"):
    a = getattr(sn, name)().data
    b = getattr(sd, name)().data
    b = b.compute() if isinstance(b, da.Array) else b
    print(f"{name}(): NumPy-backed -> {type(a).__name__}, masked samples={int(np.ma.count_masked(a))}; "
          f"Dask-backed -> {type(b).__name__}, masked samples={int(np.ma.count_masked(b))}  (expected 4 and 4)")
    print(f"    mean over time of channel 1: NumPy-backed {np.mean(a[:, 1])}, Dask-backed {np.mean(b[:, 1])}")
    bad += type(a) is not type(b) or np.ma.count_masked(a) != np.ma.count_masked(b)
# the other container-only methods keep the mask
print("to_dask_array().compute():", type(sn.to_dask_array().compute().data).__name__,
      "| rechunk().compute():", type(sn.rechunk().compute().data).__name__,
      "| (sn*2):", type((sn * 2).data).__name__)
if bad:
    print("VIOLATION: compute()/persist() change the samples' validity (mask dropped) for the NumPy-backed signal only")
    sys.exit(1)
print("no violation")
