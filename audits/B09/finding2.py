"""Generalised ufuncs (np.vecdot/matvec/vecmat) with dtype= on a Dask-backed signal: declared dtype != computed dtype, values at lower precision."""
import sys, warnings
sys.path.insert(0, sys.argv[1] if len(sys.argv) > 1 else "/tmp/audit_B09")
warnings.filterwarnings("ignore")
import numpy as np, dask, dask.array as da, astropy.units as u
import pulsarbat as pb

rng = np.random.default_rng(0)
x = (rng.standard_normal((10, 3, 3)) + 1j * rng.standard_normal((10, 3, 3))).astype(np.complex64)
kw = dict(sample_rate=1 * u.MHz, center_freq=1 * u.GHz)
s = pb.BasebandSignal(x, **kw)
bad = 0
for chunks in [(10, 3, 3), (5, 1, 3)]:
    l = pb.BasebandSignal(da.from_array(x, chunks=chunks), **kw)
    e = np.vecdot(s, s, dtype=np.complex128)
    d = np.vecdot(l, l, dtype=np.complex128)
    for sched in ("synchronous", "threads"):
        c = d.compute(scheduler=sched)
        err = float(np.abs(e.data - c.data).max())
        print(f"np.vecdot(sig, sig, dtype=complex128) chunks={chunks} [{sched}]: expected dtype {e.dtype}; "
              f"observed lazy dtype {d.dtype}, computed dtype {c.dtype}; max|diff|={err:.2e}")
        bad += (c.dtype != e.dtype) or (d.dtype != c.dtype)
# control: same call without dtype= agrees, and an ordinary ufunc honours dtype=
c0 = np.vecdot(l, l).compute(); e0 = np.vecdot(s, s)
print("control vecdot without dtype=:", e0.dtype, c0.dtype, np.allclose(e0.data, c0.data))
c1 = np.multiply(l, l, dtype=np.complex128).compute()
print("control np.multiply(dtype=complex128):", c1.dtype)
if bad:
    print("VIOLATION: Dask-backed result declares complex128 but computes complex64 (single-precision accumulation)")
    sys.exit(1)
print("no violation")
