"""Finding 1: real-sampled (Hilbert) reads are negated when `offset` is odd.

Run: PYTHONPATH=/tmp/audit_A11 /venv/bin/python finding1.py /tmp/audit_A11
"""
import sys
import warnings

warnings.filterwarnings("ignore")
from pathlib import Path

import numpy as np
import pulsarbat.readers as pbr

root = Path(sys.argv[1] if len(sys.argv) > 1 else "/tmp/audit_A11")
f = root / "tests" / "data" / "sample.vdif"  # real-sampled, 8 threads, 2 bit

r = pbr.BasebandReader(f)
assert r.real_baseband
N = 4096
span = np.asarray(r.read(0, N + 16))  # spanning read, positions 0 .. N+16


def corr(a, b):
    """Normalised complex correlation, edges (Hilbert edge effects) excluded."""
    a, b = a[256:-256].ravel(), b[256:-256].ravel()
    return np.vdot(a, b) / np.sqrt(np.vdot(a, a).real * np.vdot(b, b).real)


print("read(o, N) compared with positions [o, o+N) of the spanning read(0, N+16);")
print("expected: correlation ~ +1 for every o (same file positions, same samples)")
violations = 0
for o in range(0, 9):
    z = np.asarray(r.read(o, N))
    c = corr(span[o : o + N], z)
    print(
        f"  offset={o}: corr={c.real:+.5f}{c.imag:+.5f}j   "
        f"span[{o}+{N//2}][0]={span[o + N // 2, 0]:.3f}  read({o},N)[{N//2}][0]={z[N // 2, 0]:.3f}"
    )
    if c.real < 0.9:
        violations += 1

print()
if violations:
    print(f"VIOLATION: {violations} of 9 offsets (all the odd ones) return the NEGATED")
    print("signal: read(o, n) == -(samples o..o+n of the signal) whenever o is odd.")
    print("The value of sample k therefore depends on the parity of the read offset,")
    print("not only on what the file encodes at position k (not an edge effect:")
    print("|corr| is 0.9999, only the sign flips).")
    sys.exit(1)
print("not reproduced")
sys.exit(0)
