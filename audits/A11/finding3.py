"""Finding 3: concurrent reads (no lock=) are not stateless - they corrupt the process-wide
warnings filter list and make other reads raise instead of returning data.

Run: PYTHONPATH=/tmp/audit_A11 /venv/bin/python finding3.py /tmp/audit_A11
"""
import sys
import warnings
from concurrent.futures import ThreadPoolExecutor
from pathlib import Path

import numpy as np
import pulsarbat.readers as pbr

root = Path(sys.argv[1] if len(sys.argv) > 1 else "/tmp/audit_A11")
D = root / "tests" / "data"

rv = pbr.BasebandReader(D / "sample.vdif")              # format auto-detected by baseband
rg = pbr.GUPPIRawReader(sorted(D.glob("fake.*.raw")))   # multi-file GUPPI
refv = np.asarray(rv.read(100, 50))
refg = np.asarray(rg.read(100, 50))
print("sequential reads fine:", refv.shape, refg.shape)

filters_before = list(warnings.filters)
print("warnings.filters[0] before:", filters_before[0][0], filters_before[0][2].__name__)


def job(i):
    try:
        if i % 2:
            return bool(np.array_equal(np.asarray(rv.read(100, 50)), refv))
        return bool(np.array_equal(np.asarray(rg.read(100, 50)), refg))
    except BaseException as e:  # noqa
        return f"{'VDIF' if i % 2 else 'GUPPI'} read raised {type(e).__name__}"


raised = []
for rnd in range(5):
    with ThreadPoolExecutor(16) as ex:
        res = list(ex.map(job, range(400)))
    raised = [x for x in res if isinstance(x, str)]
    print(f"round {rnd}: 400 concurrent read(100, 50) calls from 16 threads: "
          f"{res.count(True)} correct, {res.count(False)} wrong data, {len(raised)} raised")
    if raised or list(warnings.filters) != filters_before:
        break

print("expected: every concurrent read returns the same data as the sequential read")
if raised:
    print("got     :", sorted(set(raised)))

filters_after = list(warnings.filters)
changed = filters_after != filters_before
print("\nexpected: global interpreter state untouched by reads (stateless)")
print("got     : warnings.filters changed:", changed,
      "| first entries now:", [(f[0], f[2].__name__) for f in filters_after[:2]])

after_fail = None
try:
    ok = np.array_equal(np.asarray(rg.read(100, 50)), refg)
    print("\nsequential GUPPI read after the threads finished: returned, equal =", ok)
except BaseException as e:  # noqa
    after_fail = type(e).__name__
    print("\nexpected: sequential rg.read(100, 50) after the threads finished returns the same data")
    print("got     : raised", after_fail, "(the leaked ('error', Warning) filter turns the benign")
    print("          deprecation warning emitted inside baseband.open into an exception)")

if raised or changed or after_fail:
    print("\nVIOLATION: same (offset, n) does not return the same data under concurrent "
          "execution; reads leave global state behind that breaks later reads.")
    sys.exit(1)
print("not reproduced (race not hit in 5 rounds)")
sys.exit(0)
