"""Finding 5: readers cannot be built from an open file handle although the docstrings list
"filehandle" as an accepted `name`; the handle is closed by the constructor's first probe.

Run: PYTHONPATH=/tmp/audit_A11 /venv/bin/python finding5.py /tmp/audit_A11
"""
import sys
import warnings

warnings.filterwarnings("ignore")
from pathlib import Path

import numpy as np
import baseband
import pulsarbat.readers as pbr

root = Path(sys.argv[1] if len(sys.argv) > 1 else "/tmp/audit_A11")
D = root / "tests" / "data"

cases = [
    (pbr.BasebandReader, D / "sample.dada", dict(format="dada"), dict(format="dada")),
    (pbr.DADAStokesReader, D / "stokes_ef.dada", {}, dict(format="dada", squeeze=False)),
    (pbr.GUPPIRawReader, D / "fake.0.raw", {}, dict(format="guppi", squeeze=False)),
]
bad = 0
for cls, path, kw, bkw in cases:
    with open(path, "rb") as raw:
        with baseband.open(raw, "rs", **bkw) as fh:   # baseband itself accepts the handle
            n_ok = fh.read(4).shape
    print(f"{cls.__name__}: baseband.open(<file handle>) works, read(4) -> {n_ok}")
    ref = np.asarray(cls(path, **kw).read(0, 4))
    fh = open(path, "rb")
    print("  expected: reader built from the file handle, read(0, 4) equal to the path-based reader")
    try:
        r = cls(fh, **kw)
        z = np.asarray(r.read(0, 4))
        z2 = np.asarray(r.read(0, 4))
        print("  got     : constructed; equal:", np.array_equal(z, ref), np.array_equal(z2, ref))
    except Exception as e:  # noqa
        print(f"  got     : {type(e).__name__}: {e}   (handle closed now: {fh.closed})")
        bad += 1

if bad:
    print("\nVIOLATION: a documented input form ('Filename, filehandle, or sequence of filenames') "
          "can never be read: no read(offset, n) is possible.")
    sys.exit(1)
print("not reproduced")
sys.exit(0)
