"""Finding 4: GUPPIRawReader on a file with negative OBSBW/CHAN_BW (descending channel order)
conjugates the data but does not flip the channel axis, so channel labels are mirrored.

Run: PYTHONPATH=/tmp/audit_A11 /venv/bin/python finding4.py /tmp/audit_A11
"""
import sys
import tempfile
import warnings

warnings.filterwarnings("ignore")
from pathlib import Path

import numpy as np
import astropy.units as u
import baseband
from baseband import guppi
import pulsarbat.readers as pbr

root = Path(sys.argv[1] if len(sys.argv) > 1 else "/tmp/audit_A11")
D = root / "tests" / "data"
tmp = Path(tempfile.mkdtemp(prefix="audit_A11_f4_"))
import atexit, shutil
atexit.register(shutil.rmtree, tmp, ignore_errors=True)

with baseband.open(str(D / "fake.0.raw"), "rs", format="guppi", squeeze=False) as fh:
    h0 = fh.header0.copy()
    nsamp = fh.shape[0]
    sample_rate = fh.sample_rate

nchan = 4
t = np.arange(nsamp) / sample_rate.to_value(u.MHz)          # microseconds
tone = 50 * np.exp(2j * np.pi * 0.5 * t)                     # +0.5 MHz inside a channel
data = np.zeros((nsamp, 2, nchan), np.complex64)
data[:, :, 0] = tone[:, None]                                # energy ONLY in file channel 0


def write(tag, bw):
    h = h0.copy()
    h["OBSBW"] = bw
    h["CHAN_BW"] = bw / nchan
    h["FD_POLN"] = "CIRC"
    name = str(tmp / f"{tag}.raw")
    with guppi.open(name, "ws", header0=h, squeeze=False) as fw:
        fw.write(data)
    return name, h


bad = 0
for tag, bw in [("usb", 12.5), ("lsb", -12.5)]:
    name, h = write(tag, bw)
    # channel frequencies the FILE encodes (GUPPI raw convention, signed CHAN_BW):
    # f_k = OBSFREQ - OBSBW/2 + (k + 1/2) * CHAN_BW
    f_file = h["OBSFREQ"] - h["OBSBW"] / 2 + (np.arange(nchan) + 0.5) * h["CHAN_BW"]
    r = pbr.GUPPIRawReader(name)
    z = r.read(0, 1024)
    power = (np.abs(np.asarray(z)) ** 2).sum(axis=(0, 2))
    k = int(np.argmax(power))
    f_reader = z.channel_freqs.to_value(u.MHz)
    print(f"OBSBW={bw:+.1f} MHz CHAN_BW={bw / nchan:+.4f} OBSFREQ={h['OBSFREQ']} pol={z.pol_type} "
          f"lower_sideband={r.lower_sideband}")
    print(f"  file header says channel order     : {f_file} MHz  (tone written to file channel 0 "
          f"= {f_file[0]} MHz)")
    print(f"  reader channel_freqs               : {f_reader} MHz")
    print(f"  expected: tone power in the channel labelled {f_file[0]} MHz")
    print(f"  got     : tone power in reader channel {k}, labelled {f_reader[k]} MHz")
    if not np.isclose(f_reader[k], f_file[0]):
        bad += 1
        print("  -> MISMATCH (channel axis not flipped although sideband conjugation was applied)")

if bad:
    print("\nVIOLATION: for negative OBSBW the (time, channel, pol) data / frequency metadata do not "
          "match what the file encodes: channel k is labelled with the frequency of channel nchan-1-k.")
    sys.exit(1)
print("not reproduced")
sys.exit(0)
