"""Finding 2: the documented `chunks` kwarg is forwarded into `_read_array`, so for a
user-defined BaseReader (documented hook signature `_read_array(offset, n, /)`)
`dask_read(offset, n, chunks=...)` builds a lazy Signal that can never be computed,
and eager `read(offset, n, chunks=...)` raises.

Run: PYTHONPATH=/tmp/audit_A11 /venv/bin/python finding2.py /tmp/audit_A11
"""
import sys
import warnings

warnings.filterwarnings("ignore")
import numpy as np
import astropy.units as u
from astropy.time import Time
import pulsarbat.readers as pbr


class IndexReader(pbr.BaseReader):
    """Same shape as the reader in tests/test_readers.py; hook signature as in BaseReader."""

    def _read_array(self, offset, n, /):
        x = np.arange(offset, offset + n, dtype=np.int64)[:, None]
        return (x * np.ones(self.sample_shape, dtype=np.int64)).astype(self.dtype)


r = IndexReader(shape=(1000, 4), dtype=np.int64, sample_rate=1 * u.Hz,
                start_time=Time("2020-01-01T00:00:00"))

eager = np.asarray(r.read(10, 20))
print("eager read(10, 20) ok:", eager.shape)
print("dask_read(10, 20) default chunks equals eager:",
      np.array_equal(np.asarray(r.dask_read(10, 20).compute()), eager))

bad = 0
print("\nexpected: dask_read(10, 20, chunks=(5, 2)).compute() == read(10, 20)")
z = r.dask_read(10, 20, chunks=(5, 2))
print("  lazy signal built:", z.shape, "chunks", z.data.chunks)
try:
    out = np.asarray(z.compute())
    print("  computed, equal to eager:", np.array_equal(out, eager))
except Exception as e:  # noqa
    print(f"  got: compute() raised {type(e).__name__}: {e}")
    bad += 1

print("expected: read(10, 20, chunks=(5, 2)) (use_dask=False) returns the eager data "
      "(chunks is documented as an accepted read() kwarg)")
try:
    out = np.asarray(r.read(10, 20, chunks=(5, 2)))
    print("  returned, equal:", np.array_equal(out, eager))
except Exception as e:  # noqa
    print(f"  got: raised {type(e).__name__}: {e}")
    bad += 1

if bad:
    print("\nVIOLATION: Dask read with the documented `chunks` argument does not equal the "
          "eager read (it cannot be computed at all) for a BaseReader subclass.")
    sys.exit(1)
print("not reproduced")
sys.exit(0)
