"""C09 scenario: a NumPy-backed signal and its Dask-backed twin go through the same
tape-drawn pipeline of public operations; the Dask result is computed under the
simulated cluster (Engine A) and compared with the NumPy result.

Monitored while the graph is built: sentinel source counter stays 0, the
process-wide default scheduler (a tripwire) is never invoked, result data stays a
dask Array, type/shape/dtype/chunks/metadata equal the twin's.
After compute: values equal the twin's; recomputation under another schedule (and
after an injected abort / task failure) gives the same bits; every NumPy buffer
wrapped in the graph is unchanged; compute/persist/to_dask_array/rechunk change
only the container; multi-output computes return each output's own values.
"""

import numpy as np

from . import core, gen, ops, snapshot
from .dasksim import SimScheduler, SchedPlan, SimAbort, tripwire
from .inject import SimOSError

SENT = {"n": 0}
REG = {}


def _sentinel(block):
    if block.size:
        SENT["n"] += 1
    return block


def _view_src(token, slc):
    SENT["n"] += 1
    return REG[token][slc]


def build_dask_source(pb, zn, chunks, style, token):
    """Dask-backed twin of zn over sentinel sources. Returns (zd, owner_buffers)."""
    import dask
    import dask.array as da
    vals = np.ascontiguousarray(np.asarray(zn.data))
    if style == "from_array":
        x = da.from_array(vals, chunks=chunks)
        x = x.map_blocks(_sentinel, dtype=vals.dtype, meta=np.array((), dtype=vals.dtype))
        owners = None       # chunk copies live inside the graph; found by graph walk
    else:
        owner = vals.copy()
        REG[token] = owner
        owners = [owner]
        offs = [np.concatenate([[0], np.cumsum(c)]) for c in chunks]

        def rec(ax, idx):
            if ax == vals.ndim:
                slc = tuple(slice(int(offs[a][i]), int(offs[a][i + 1])) for a, i in enumerate(idx))
                shp = tuple(chunks[a][i] for a, i in enumerate(idx))
                name = f"src-{token}-" + "-".join(map(str, idx))
                d = dask.delayed(_view_src)(token, slc, dask_key_name=name)
                return da.from_delayed(d, shape=shp, dtype=vals.dtype,
                                       meta=np.array((), dtype=vals.dtype))
            return [rec(ax + 1, idx + (i,)) for i in range(len(chunks[ax]))]

        x = da.block(rec(0, ()))
    zd = type(zn).like(zn, x)
    return zd, owners


def meta_snap(z):
    s = snapshot.snap_signal(z)
    return tuple(p for p in s if p[0] != "data")


def compare_meta(ctx, opname, rn, rd, stage, tags=None):
    import dask.array as da
    if isinstance(rn, core_signal(ctx)):
        if type(rn) is not type(rd):
            ctx.violate("dask-numpy-mismatch", f"{opname}:type",
                        f"{stage}: {type(rn).__name__} vs {type(rd).__name__}")
        if tuple(rn.shape) != tuple(rd.shape):
            ctx.violate("dask-numpy-mismatch", f"{opname}:shape",
                        f"{stage}: numpy {rn.shape} dask {rd.shape}")
        if rn.dtype != rd.dtype:
            ctx.violate("dask-numpy-mismatch", f"{opname}:dtype",
                        f"{stage}: numpy {rn.dtype} dask {rd.dtype}")
        a, b = meta_snap(rn), meta_snap(rd)
        if a != b:
            ctx.violate("dask-numpy-mismatch", f"{opname}:metadata",
                        f"{stage}: {snapshot.describe_diff(a, b)}")
        return
    # terminal values (arrays)
    if isinstance(rd, da.Array) or isinstance(rn, np.ndarray):
        if tuple(np.shape(rn)) != tuple(rd.shape):
            ctx.violate("dask-numpy-mismatch", f"{opname}:shape",
                        f"{stage}: numpy {np.shape(rn)} dask {rd.shape}", tags)
        if np.asarray(rn).dtype != rd.dtype:
            ctx.violate("dask-numpy-mismatch", f"{opname}:dtype",
                        f"{stage}: numpy {np.asarray(rn).dtype} dask {rd.dtype}", tags)


_PB = {}


def core_signal(ctx):
    return _PB["pb"].Signal


def check_chunks(ctx, opname, x):
    for ax, c in enumerate(x.chunks):
        if any((not isinstance(v, (int, np.integer))) or v < 0 for v in c) or sum(c) != x.shape[ax]:
            ctx.violate("dask-bad-chunks", f"{opname}:chunks", f"axis {ax}: {c} for shape {x.shape}")


def values_equal(ctx, opname, ref, got, nfft_ops, nops, what):
    """Bitwise equality expected and counted; a violation only above tau."""
    ref = np.asarray(ref)
    got = np.asarray(got)
    if ref.shape != got.shape:
        ctx.violate("dask-numpy-mismatch", f"{opname}:computed-shape",
                    f"{what}: {ref.shape} vs {got.shape}")
    if ref.dtype != got.dtype:
        ctx.violate("dask-numpy-mismatch", f"{opname}:computed-dtype",
                    f"{what}: {ref.dtype} vs {got.dtype}")
    if ref.size == 0:
        return True
    if ref.tobytes() == np.ascontiguousarray(got).tobytes() and ref.flags.c_contiguous:
        ctx.counts["bit_identical"] += 1
        return True
    if np.array_equal(ref, got, equal_nan=(ref.dtype.kind in "fc")):
        ctx.counts["bit_identical"] += 1
        return True
    if ref.dtype.kind not in "fc":
        ctx.violate("dask-numpy-mismatch", f"{opname}:values", f"{what}: integer/bool data differ")
    eps = np.finfo(ref.dtype).eps
    fin = np.isfinite(ref)
    if not np.array_equal(fin, np.isfinite(got)):
        ctx.violate("dask-numpy-mismatch", f"{opname}:values", f"{what}: non-finite pattern differs")
    if not fin.any():
        return True
    n = max(ref.shape[0], 2)
    scale = float(np.max(np.abs(ref[fin])))
    # measured on the unchanged tree (50k comparisons): 99.8 % bit-identical; every other
    # case had an FFT in its pipeline and differed by < 4 eps * max|ref|. Elementwise-only
    # pipelines get 4 eps (SIMD exp/sqrt tails), each FFT-based operation adds 16 eps (1+log2 N).
    tau = eps * max(scale, np.finfo(ref.dtype).tiny) * (4 + 16 * (1 + np.log2(n)) * max(nfft_ops, 0))
    diff = float(np.max(np.abs(ref[fin] - got[fin])))
    if diff > tau:
        ctx.violate("dask-numpy-mismatch", f"{opname}:values",
                    f"{what}: max|diff|={diff:.3e} > tau={tau:.3e} (scale {scale:.3e})")
    ctx.counts["within_tau_not_bit_identical"] += 1
    ulps = diff / (eps * max(scale, np.finfo(ref.dtype).tiny))
    ctx.counts[f"nonidentical.{opname}.fft{min(nfft_ops, 1)}.ulps<{'4' if ulps < 4 else '64' if ulps < 64 else 'more'}"] += 1
    return False


def accepted_rejection(op, zd, exc):
    """A build-time refusal counts as 'chunking not accepted' only for FFT/reshape
    based operations on inputs chunked along an axis they transform."""
    import dask.array as da
    if not op.fft_based or not isinstance(zd.data, da.Array):
        return False
    nblocks = zd.data.numblocks
    if op.name in ("stft", "istft", "fftfunc"):
        return any(b > 1 for b in nblocks)
    return nblocks[0] > 1


def run(ctx):
    pb = core.setup_imports()
    _PB["pb"] = pb
    tape = ctx.tape
    SENT["n"] = 0
    REG.clear()

    # ---- the pair ---------------------------------------------------------------
    spec = gen.gen_signal_spec(tape, maxlen=96 if ctx.tier == "quick" else 192, layouts=False,
                               label="sig", big=ctx.tier != "quick")
    zn, _ = gen.build_numpy(pb, spec)
    tchunk = tape.chance(1, 6, "src.time_chunked") and zn.shape[0] >= 2
    chunks = gen.gen_chunks(tape, zn.shape, time_chunked=tchunk, label="src.chunks")
    style = ["from_array", "delayed_view"][tape.draw(2, "src.style")]
    zd, owners = build_dask_source(pb, zn, chunks, style, "s0")
    nblocks = int(np.prod([len(c) for c in chunks]))
    case = {"signal": spec, "chunks": [list(c) for c in chunks], "source": style, "pipeline": []}
    ctx.sample = case
    ctx.log("case", spec, chunks, style)
    if tchunk:
        ctx.probe("time_chunked_input")
    if nblocks > 1:
        ctx.probe("multi_chunk_input")
    return _pipeline(ctx, pb, zn, zd, owners, style, case, nblocks, None)


def run_readers(ctx):
    """Reader-sourced graphs: two readers (often siblings: same class and geometry,
    different content) read lazily; the eager reads are the NumPy twins. Building the
    graph must not open any file."""
    from . import files, iosim
    pb = core.setup_imports()
    _PB["pb"] = pb
    tape = ctx.tape
    SENT["n"] = 0
    REG.clear()
    files.workdir()
    kinds = ["dada_complex", "guppi", "dada_stokes", "dada_multi", "vdif_complex", "dada_real",
             "vdif_real"]
    fs1 = files.gen_file_spec(tape, label="f0", kinds=kinds)
    if "lsb" in fs1 and not fs1.get("intensity") and tape.chance(1, 4, "samefile"):
        other = [x for x in ("no", "all", "mask") if x != fs1["lsb"]]
        fs2 = dict(fs1, lsb=other[tape.draw(len(other), "samefile.lsb")])
        ctx.probe("two_readers_same_file_different_options")
    elif tape.chance(2, 3, "sibling"):
        fs2 = dict(fs1, seed=(fs1["seed"] + 1 + tape.draw(5, "sibling.seed")) % 4096)
        ctx.probe("sibling_readers_same_geometry")
    else:
        fs2 = files.gen_file_spec(tape, label="f1", kinds=kinds)
    rs1, rs2 = files.reader_spec(fs1), files.reader_spec(fs2)
    io = iosim.IOSim(ctx, None, 0)

    def on_open():
        SENT["n"] += 1

    io.on_open = on_open
    with iosim.installed(pb, io):
        r1, r2 = files.open_reader(pb, rs1), files.open_reader(pb, rs2)
        L = min(len(r1), len(r2))
        o = tape.draw(L + 1, "o")
        n = 1 + tape.draw(max(min(L - o, 48), 1), "n") if L - o > 0 else 0
        if n == 0:
            o, n = 0, min(L, 8)
        kw = {}
        if tape.chance(1, 3, "chunks") and n > 1:
            # explicit chunks for the lazy read, half of the time also along time
            tsplit = max(1, n // 2) if tape.chance(1, 2, "chunks.time") else n
            kw["chunks"] = (tsplit,) + tuple(max(1, s // 2) for s in r1.sample_shape)
        zn, bn = r1.read(o, n), r2.read(o, n)
        SENT["n"] = 0
        trip = []
        with tripwire(trip):
            zd, bd = r1.dask_read(o, n, **kw), r2.dask_read(o, n)
        if SENT["n"] or trip:
            ctx.violate("not-lazy", "dask_read:source-computed",
                        f"dask_read opened a file {SENT['n']}x / invoked the default scheduler "
                        f"{len(trip)}x while the graph was being built")
        case = {"readers": [rs1, rs2], "offset": o, "n": n, "dask_read_kwargs": {k: list(v) for k, v in kw.items()},
                "source": "readers", "pipeline": []}
        ctx.sample = case
        ctx.log("case", rs1, rs2, o, n, kw)
        other = ("dask_read", bn, bd)
        if type(zn) is type(bn) and zn.shape == bn.shape and tape.chance(1, 2, "combine"):
            zn, zd = zn - bn, zd - bd
            case["pipeline"].append({"op": "subtract_other_reader"})
            ctx.probe("two_reader_graphs_combined")
        return _pipeline(ctx, pb, zn, zd, None, "readers", case,
                         int(np.prod(zd.data.numblocks)), other)


def _pipeline(ctx, pb, zn, zd, owners, style, case, nblocks, other):
    import dask
    import dask.array as da
    tape = ctx.tape
    npipe = 1 + (tape.weighted([3, 3, 2, 1], "npipe") if ctx.tier == "quick"
                 else tape.weighted([2, 3, 3, 2, 1, 1], "npipe"))
    cur_n, cur_d = zn, zd
    stages = []            # (name, rn, rd) signal results kept for multi-output compute
    nfft = 0
    nops = 0
    trip = []
    lastop = "source"
    base_sent = 0
    for s in range(npipe):
        if not isinstance(cur_n, pb.Signal):
            break
        if 0 in cur_n.shape:
            # no sample values left to compare: exercise the container methods once and stop
            ctx.probe("pipeline_reached_zero_length")
            for cname in ("rechunk", "to_dask_array", "persist", "compute"):
                try:
                    with tripwire(trip):
                        kw = {"scheduler": "synchronous"} if cname in ("persist", "compute") else {}
                        r0 = getattr(cur_d, cname)(**kw)
                except Exception as e:
                    ctx.violate("container", f"{cname}:zero-length",
                                f"{cname}() on a zero-length Dask-backed signal raised "
                                f"{type(e).__name__}: {e}")
                if type(r0) is not type(cur_n) or tuple(r0.shape) != tuple(cur_n.shape) \
                        or meta_snap(r0) != meta_snap(cur_n):
                    ctx.violate("container", f"{cname}:zero-length",
                                f"{cname}() changed more than the container of a zero-length signal")
            trip.clear()
            break
        info = ops.Info(cur_n)
        names = [n for n, o in ops.OPS.items() if o.applies(info) and not o.numpy_only]
        opname = names[tape.draw(len(names), f"p{s}.op")]
        op = ops.OPS[opname]
        desc = op.gen(tape, info)
        case["pipeline"].append({"op": opname, "args": desc})
        ctx.log("op", s, opname, desc)
        ctx.note(f"op {s}: {opname} {desc}")
        try:
            an = op.prepare(pb, cur_n, desc)
            ad = op.prepare(pb, cur_d, desc)
        except Exception as e:
            ctx.log("prepare-failed", type(e).__name__)
            continue
        # ---- NumPy twin ----
        try:
            # reference model: container methods change only the container
            rn = cur_n if opname == "container" else op.call(pb, cur_n, an, desc)
            on = "ok"
        except Exception as e:
            rn, on = e, "raise"
        if opname == "container":
            # the same method on the NumPy-backed twin: compute/persist keep it NumPy-backed,
            # to_dask_array/rechunk make it Dask-backed; nothing else may change
            kind = desc["kind"]
            try:
                akw = dict(an)
                if kind in ("persist", "compute"):
                    akw["sched_kw"] = {"scheduler": "synchronous"}
                cn = op.call(pb, cur_n, akw, desc)
            except Exception as e:
                ctx.violate("container", f"{kind}:numpy-input",
                            f"{kind}() on a NumPy-backed signal raised {type(e).__name__}: {e}")
            want_dask = kind in ("to_dask_array", "rechunk", "rechunk_default")
            if isinstance(cn.data, da.Array) != want_dask:
                ctx.violate("container", f"{kind}:numpy-input",
                            f"{kind}() on a NumPy-backed signal returned {type(cn.data).__name__} data")
            if type(cn) is not type(cur_n) or meta_snap(cn) != meta_snap(cur_n) \
                    or tuple(cn.shape) != tuple(cur_n.shape) or cn.dtype != cur_n.dtype:
                ctx.violate("container", f"{kind}:numpy-input",
                            f"{kind}() on a NumPy-backed signal changed more than the container: "
                            + snapshot.describe_diff(meta_snap(cur_n), meta_snap(cn)))
            cv = cn.data.compute(scheduler="synchronous") if want_dask else cn.data
            values_equal(ctx, kind, cur_n.data, cv, 0, 1, f"{kind}() on a NumPy-backed signal")
            ctx.probe("container_method_on_numpy_input")
        if on == "ok" and opname != "container" and tape.chance(1, 6, f"p{s}.scribble"):
            # the client scribbles over the arrays this call returned, then calls again: the
            # reference is "the same operation on the NumPy-backed signal" at ANY time, so a
            # library that hands out (and later re-uses) an internal cache shows up here
            try:
                junk = rn.data if isinstance(rn, pb.Signal) else rn
                if isinstance(junk, np.ndarray) and junk.size and junk.flags.writeable \
                        and not np.shares_memory(junk, np.asarray(cur_n.data)):
                    junk[...] = 0
                    rn = op.call(pb, cur_n, an, desc)
                    ctx.probe("numpy_result_scribbled_then_recomputed")
            except Exception as e:
                rn, on = e, "raise"
        if on == "ok" and isinstance(rn, pb.Signal) and not isinstance(rn.data, np.ndarray):
            raise RuntimeError(f"harness: NumPy twin became {type(rn.data).__name__}-backed after {opname}")
        # ---- Dask, with the laziness monitors armed ----
        is_container_compute = opname == "container" and desc["kind"] in ("persist", "compute")
        sim = None
        if is_container_compute:
            plan = SchedPlan(tape, f"p{s}.sched", allow_faults=False)
            sim = SimScheduler(ctx, plan, f"p{s}.sched")
            ad = dict(ad)
            ad["sched_kw"] = {"scheduler": sim, "optimize_graph": bool(tape.draw(2, f"p{s}.opt"))}
            case["pipeline"][-1]["schedule"] = plan.describe()
        with tripwire(trip):
            try:
                rd = op.call(pb, cur_d, ad, desc)
                od = "ok"
            except Exception as e:
                rd, od = e, "raise"
        ctx.counts[f"op.{opname}.{on}/{od}"] += 1
        ctx.steps += 1
        # laziness: nothing ran unless this op is the harness-requested compute/persist
        if trip:
            ctx.violate("not-lazy", f"{opname}:default-scheduler",
                        f"building the result invoked the default scheduler ({len(trip)}x)")
        if is_container_compute:
            base_sent = SENT["n"]
        elif SENT["n"] != base_sent:
            ctx.violate("not-lazy", f"{opname}:source-computed",
                        f"{SENT['n'] - base_sent} source block(s) were computed while the graph "
                        f"was being built")
        if on == "raise":
            ctx.log("numpy-raised", type(rn).__name__, od)
            if od == "raise":
                ctx.probe("both_raised")
                if type(rn) is not type(rd):
                    ctx.probe("both_raised_different_types")
            else:
                ctx.probe("numpy_raised_dask_built")
            continue
        if od == "raise":
            if accepted_rejection(op, cur_d, rd):
                ctx.probe("chunking_rejected_at_build_time")
                ctx.log("rejected", type(rd).__name__)
                continue
            ctx.violate("dask-numpy-mismatch", f"{opname}:dask-raises",
                        f"NumPy twin succeeded, Dask build raised {type(rd).__name__}: {rd}")
        if isinstance(cur_d.data, da.Array) and cur_d.data.numblocks[0] > 1 and op.fft_based \
                and opname not in ("fftfunc",):
            ctx.probe("time_chunked_input_accepted_by_fft_op")
        nops += 1
        if op.fft_based or opname in ("coherent_dd",):
            nfft += 1
        sitename, tags = opname, None
        if opname == "fftfunc":
            sitename = f"fftfunc.{desc['name']}"
            ax = -1 if "s" in desc else (desc["axes"][-1] if "axes" in desc else desc["axis"])
            tags = {"fft": desc["name"], "last_transformed_axis_len": int(cur_n.shape[ax])}
        compare_meta(ctx, sitename, rn, rd, f"stage {s} at build time", tags)
        # container expectations
        if isinstance(rn, pb.Signal):
            if opname == "container" and desc["kind"] == "compute":
                if not isinstance(rd.data, np.ndarray):
                    ctx.violate("container", "compute:container",
                                f"compute() returned {type(rd.data).__name__}-backed signal")
                values_equal(ctx, "compute", rn.data, rd.data, nfft, nops, f"stage {s} compute()")
                ctx.probe("pipeline_compute")
                # continue the pipeline Dask-backed again
                rd = rd.to_dask_array()
                if not isinstance(rd.data, da.Array):
                    ctx.violate("container", "to_dask_array:container",
                                "to_dask_array() did not return a Dask-backed signal")
            else:
                if not isinstance(rd.data, da.Array):
                    ctx.violate("not-dask-backed", f"{opname}:container",
                                f"result data is {type(rd.data).__name__}, not a dask Array")
                check_chunks(ctx, opname, rd.data)
                if opname == "container" and desc["kind"] == "persist":
                    g = rd.data.__dask_graph__()
                    if len(g) != int(np.prod(rd.data.numblocks)) :
                        ctx.violate("container", "persist:graph",
                                    f"persisted graph has {len(g)} tasks for "
                                    f"{int(np.prod(rd.data.numblocks))} chunks")
                    ctx.probe("pipeline_persist")
            stages.append((sitename, rn, rd))
        else:
            if isinstance(rn, np.ndarray) and not isinstance(rd, da.Array):
                ctx.violate("not-dask-backed", f"{opname}:container",
                            f"array result is {type(rd).__name__}, not a dask Array")
        cur_n, cur_d = rn, rd
        lastop = sitename

    # ---- observers must not compute: str/repr/len/getters/contains/get_axis on the lazy result
    if isinstance(cur_d, pb.Signal) and isinstance(cur_d.data, da.Array):
        sent0 = SENT["n"]
        with tripwire(trip):
            try:
                obs_d = (len(str(cur_d)) > 0, repr(cur_d)[:9], len(cur_d), cur_d.shape, cur_d.ndim,
                         str(cur_d.dtype), cur_d.sample_shape, cur_d.get_axis("time"),
                         str(cur_d.dt), str(cur_d.time_length),
                         None if cur_d.stop_time is None else cur_d.stop_time.isot,
                         str(getattr(cur_d, "channel_freqs", None)), str(getattr(cur_d, "bandwidth", None)),
                         getattr(cur_d, "nchan", None))
                obs_n = (len(str(cur_n)) > 0, repr(cur_n)[:9], len(cur_n), cur_n.shape, cur_n.ndim,
                         str(cur_n.dtype), cur_n.sample_shape, cur_n.get_axis("time"),
                         str(cur_n.dt), str(cur_n.time_length),
                         None if cur_n.stop_time is None else cur_n.stop_time.isot,
                         str(getattr(cur_n, "channel_freqs", None)), str(getattr(cur_n, "bandwidth", None)),
                         getattr(cur_n, "nchan", None))
            except Exception as e:
                ctx.violate("dask-numpy-mismatch", "observers:raises",
                            f"str/repr/len/getters on the Dask-backed result raised {type(e).__name__}: {e}")
        if trip or SENT["n"] != sent0:
            ctx.violate("not-lazy", "observers:computed",
                        "str/repr/len/property getters of a Dask-backed signal computed the graph")
        if obs_d[1:] != obs_n[1:]:
            ctx.violate("dask-numpy-mismatch", "observers:values",
                        f"getters differ: dask {obs_d} numpy {obs_n}")
        ctx.probe("observers_on_lazy_result")

    # ---- compute under the simulated cluster --------------------------------------
    def data_of(r):
        return r.data if isinstance(r, pb.Signal) else r

    fin_n, fin_d = data_of(cur_n), data_of(cur_d)
    if not isinstance(fin_d, da.Array):
        ctx.nontrivial = nops > 0
        return
    embedded = snapshot.graph_arrays(fin_d) if style == "from_array" else []
    emb0 = [snapshot.snap_ndarray(a) for a in embedded]
    own0 = [o.tobytes() for o in (owners or [])]

    # optional second output (an earlier stage) for a multi-output compute
    extra = other
    if other is not None:
        ctx.probe("multi_output_compute")
    elif len(stages) >= 2 and tape.chance(1, 3, "multi"):
        extra = stages[tape.draw(len(stages) - 1, "multi.which")]
        ctx.probe("multi_output_compute")

    def one_compute(label, allow_faults):
        plan = SchedPlan(tape, label, allow_faults=allow_faults)
        sim = SimScheduler(ctx, plan, label)
        opt = bool(1 - tape.draw(2, f"{label}.opt"))
        case.setdefault("computes", []).append({**plan.describe(), "optimize_graph": opt})
        ctx.log("compute", label, plan.describe(), opt)
        try:
            if extra is not None:
                got = dask.compute(fin_d, extra[2].data, scheduler=sim, optimize_graph=opt)
            else:
                got = (fin_d.compute(scheduler=sim, optimize_graph=opt),)
            out = ("ok", got)
        except SimAbort as e:
            out = ("abort", e)
        except SimOSError as e:
            out = ("oserror", e)
        except Exception as e:
            # accepted at build time, NumPy twin succeeded, but the graph cannot be computed
            site = lastop
            for sname, srn, srd in stages:
                if isinstance(srd.data, da.Array):
                    try:
                        srd.data.compute(scheduler="synchronous")
                    except Exception:
                        site = sname
                        break
            ctx.violate("dask-numpy-mismatch", f"{site}:compute-raises",
                        f"the NumPy twin succeeded and the graph was built, but computing it under "
                        f"{plan.describe()} raised {type(e).__name__}: {e}")
        ctx.counts["tasks_executed"] += sim.completed
        ctx.counts["computes"] += 1
        if sim.max_inflight > 1:
            ctx.probe("several_tasks_in_flight")
        ctx.log("order", core.hbytes(repr(sim.order_log).encode()), sim.completed)
        return plan, sim, out

    # first compute: may be hit by an injected abort / task failure
    plan1, sim1, out1 = one_compute("c1", allow_faults=True)
    if out1[0] != "ok":
        ctx.probe(f"compute_failed_by_injected_{out1[0]}")
        ctx.note(f"compute c1 ended by injected {out1[0]} after {sim1.completed} task completions")
        plan1b, sim1b, out1 = one_compute("c1retry", allow_faults=False)
        if out1[0] != "ok":
            raise RuntimeError("fault-free compute failed")
        ctx.probe("fresh_compute_after_fault")
    elif plan1.fault != "none" and not sim1.fault_fired:
        ctx.probe("fault_scheduled_after_end")
    got1 = out1[1]
    if SENT["n"] == base_sent and nblocks and style in ("from_array", "delayed_view") \
            and not any(p["op"] == "container" and p["args"]["kind"] in ("persist", "compute")
                        for p in case["pipeline"]):
        # sanity of the harness itself: a compute must have touched the sources
        if fin_n.size:
            ctx.probe("compute_without_source_access")
    try:
        values_equal(ctx, lastop, fin_n, got1[0], nfft, nops, "computed result vs NumPy twin")
    except core.Violation as v:
        # localise: first pipeline stage whose own result already differs from its twin
        for k, (sname, srn, srd) in enumerate(stages):
            if isinstance(srd.data, da.Array):
                try:
                    sv = srd.data.compute(scheduler="synchronous")
                    values_equal(ctx, sname, srn.data, sv, nfft, k + 1,
                                 f"first diverging stage ({k}); final: {v.detail}")
                except core.Violation:
                    raise
                except Exception:
                    break
        raise
    if extra is not None:
        values_equal(ctx, extra[0], extra[1].data, got1[1], nfft, nops,
                     "second output of multi-output compute vs its NumPy twin")

    # second compute of the same lazy object under another schedule: same bits
    plan2, sim2, out2 = one_compute("c2", allow_faults=False)
    got2 = out2[1]
    for i, (a, b) in enumerate(zip(got1, got2)):
        a, b = np.asarray(a), np.asarray(b)
        if a.shape == b.shape and a.dtype == b.dtype and a.tobytes() == b.tobytes():
            ctx.counts["recompute_bit_identical"] += 1
            continue
        # SIMD kernels may round differently for differently strided (shared vs
        # pickled) inputs: same tolerance rule as against the twin
        try:
            values_equal(ctx, lastop, a, b, nfft, nops, f"output {i}: recompute vs first compute")
        except core.Violation as v:
            ctx.violate("schedule-dependent-result", f"{lastop}:recompute",
                        f"output {i}: two computes of the same lazy object differ: {v.detail} "
                        f"(schedules {plan1.describe()} / {plan2.describe()})")
        ctx.counts["recompute_within_tau"] += 1
    if sim1.order_log != sim2.order_log:
        ctx.probe("two_computes_in_different_task_order")

    # wrapped buffers unchanged
    for a, s0 in zip(embedded, emb0):
        if snapshot.snap_ndarray(a) != s0:
            ctx.violate("graph-buffer-mutated", f"{lastop}:embedded-array",
                        "a NumPy array embedded in the graph changed during compute")
    for o, b0 in zip(owners or [], own0):
        if o.tobytes() != b0:
            ctx.violate("graph-buffer-mutated", f"{lastop}:source-buffer",
                        "the source buffer behind the graph changed during compute")

    # fork: the same operation applied twice to the same input with different arguments, both
    # results computed in ONE graph (task names that ignore an argument collide here)
    if isinstance(cur_n, pb.Signal) and 0 not in cur_n.shape and tape.chance(1, 3, "fork"):
        info = ops.Info(cur_n)
        names = [n for n, o in ops.OPS.items() if o.applies(info) and not o.numpy_only
                 and n not in ("container", "fftfunc")]
        fname = names[tape.draw(len(names), "fork.op")]
        fop = ops.OPS[fname]
        pairs = []
        # second branch: same input with other arguments, or (same arguments on) a DIFFERENT
        # input derived from the same source -- constant task names collide in the latter case
        other_input = tape.chance(1, 2, "fork.other_input")
        fdesc0 = None
        for b in range(2):
            in_n, in_d = cur_n, cur_d
            if b == 1 and other_input:
                try:
                    in_n, in_d = cur_n * 2, cur_d * 2
                    if type(in_n) is not type(cur_n):
                        in_n, in_d = cur_n, cur_d
                except Exception:
                    in_n, in_d = cur_n, cur_d
            fdesc = fop.gen(tape, info)
            if b == 1 and other_input and in_n is not cur_n and tape.chance(1, 2, "fork.sameargs"):
                fdesc = fdesc0
            fdesc0 = fdesc0 or fdesc
            try:
                fan, fad = fop.prepare(pb, in_n, fdesc), fop.prepare(pb, in_d, fdesc)
                frn = fop.call(pb, in_n, fan, fdesc)
                with tripwire(trip):
                    frd = fop.call(pb, in_d, fad, fdesc)
            except Exception:
                break
            if trip:
                ctx.violate("not-lazy", f"{fname}:default-scheduler",
                            "building the result invoked the default scheduler")
            fdn = frn.data if isinstance(frn, pb.Signal) else frn
            fdd = frd.data if isinstance(frd, pb.Signal) else frd
            if not isinstance(fdd, da.Array) or not isinstance(fdn, np.ndarray):
                break
            pairs.append((fdesc, fdn, fdd))
        if len(pairs) == 2:
            case["fork"] = {"op": fname, "args": [pairs[0][0], pairs[1][0]]}
            ctx.log("fork", fname, pairs[0][0], pairs[1][0])
            planf = SchedPlan(tape, "cf", allow_faults=False)
            simf = SimScheduler(ctx, planf, "cf")
            try:
                g1, g2 = dask.compute(pairs[0][2], pairs[1][2], scheduler=simf,
                                      optimize_graph=bool(tape.draw(2, "cf.opt")))
            except Exception as e:
                ctx.violate("dask-numpy-mismatch", f"{fname}:compute-raises",
                            f"fork of {fname} built, NumPy twins succeeded, compute raised "
                            f"{type(e).__name__}: {e}")
            ctx.counts["tasks_executed"] += simf.completed
            values_equal(ctx, fname, pairs[0][1], g1, nfft + 1, nops + 1,
                         f"fork branch 0 {pairs[0][0]} computed together with branch 1 {pairs[1][0]}")
            values_equal(ctx, fname, pairs[1][1], g2, nfft + 1, nops + 1,
                         f"fork branch 1 {pairs[1][0]} computed together with branch 0 {pairs[0][0]}")
            ctx.probe("fork_same_op_two_argument_sets_one_graph")

    # container methods on the final result change only the container
    if isinstance(cur_d, pb.Signal) and tape.chance(1, 2, "final.container"):
        plan3 = SchedPlan(tape, "c3", allow_faults=False)
        sim3 = SimScheduler(ctx, plan3, "c3")
        k = tape.draw(2, "final.kind")
        r = cur_d.compute(scheduler=sim3) if k == 0 else cur_d.persist(scheduler=sim3)
        ctx.counts["tasks_executed"] += sim3.completed
        if k == 0 and not isinstance(r.data, np.ndarray):
            ctx.violate("container", "compute:container", "compute() did not return NumPy data")
        if k == 1 and not isinstance(r.data, da.Array):
            ctx.violate("container", "persist:container", "persist() did not return Dask data")
        if type(r) is not type(cur_n) or meta_snap(r) != meta_snap(cur_n):
            ctx.violate("container", f"{['compute', 'persist'][k]}:metadata",
                        snapshot.describe_diff(meta_snap(cur_n), meta_snap(r)))
        rv = r.data if k == 0 else r.data.compute(scheduler="synchronous")
        values_equal(ctx, ["compute", "persist"][k], fin_n, rv, nfft, nops,
                     "Signal.compute()/persist() vs NumPy twin")
        ctx.probe("final_signal_" + ["compute", "persist"][k])

    ctx.nontrivial = nops > 0 and sim1.completed > 1
    REG.clear()
