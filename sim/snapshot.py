"""Byte-exact snapshots of caller-owned objects (used by the C14 oracle and by the
C09/C11 'wrapped buffers unchanged' checks)."""

import hashlib
import numpy as np


def root_of(arr):
    """Follow .base to the ndarray that owns the memory."""
    r = arr
    while isinstance(getattr(r, "base", None), np.ndarray):
        r = r.base
    return r


def _arr_bytes(a):
    a = np.asarray(a)
    try:
        return a.tobytes(order="A")
    except Exception:
        return np.ascontiguousarray(a).tobytes()


def snap_ndarray(a):
    r = root_of(a)
    return ("nd", a.shape, str(a.dtype), bool(a.flags.writeable), _arr_bytes(a),
            r.shape, _arr_bytes(r))


def graph_arrays(x):
    """All NumPy arrays embedded in a dask collection's graph, in key order."""
    out = []
    seen = set()

    def walk(o, depth=0):
        if depth > 12 or id(o) in seen:
            return
        if isinstance(o, np.ndarray):
            seen.add(id(o))
            out.append(o)
            return
        if isinstance(o, (str, bytes, int, float, complex, type(None), np.generic)):
            return
        seen.add(id(o))
        if isinstance(o, dict):
            for k in o:
                walk(o[k], depth + 1)
            return
        if isinstance(o, (list, tuple, set, frozenset)):
            for v in o:
                walk(v, depth + 1)
            return
        for attr in ("value", "args", "kwargs", "inner_graph", "tasks", "func"):
            if hasattr(o, attr):
                try:
                    walk(getattr(o, attr), depth + 1)
                except Exception:
                    pass
        if hasattr(o, "__self__"):      # bound method (reader._read_array)
            return

    try:
        g = x.__dask_graph__()
    except Exception:
        return out
    for k in sorted(g.keys(), key=str):
        walk(g[k])
    return out


def snap_dask(x):
    arrs = graph_arrays(x)
    return ("da", x.name, x.chunks, str(x.dtype), len(x.__dask_graph__()),
            tuple(snap_ndarray(a) for a in arrs))


def snap_data(d):
    import dask.array as da
    if isinstance(d, da.Array):
        return snap_dask(d)
    if isinstance(d, np.ndarray):
        return snap_ndarray(d)
    return ("obj", repr(type(d)))


def snap_quantity(q):
    if q is None:
        return None
    v = np.asarray(q.value)
    return ("q", type(q).__name__, str(q.unit), str(v.dtype), v.shape, v.tobytes())


def snap_time(t):
    if t is None:
        return None
    j1 = np.asarray(t.jd1)
    j2 = np.asarray(t.jd2)
    loc = None if t.location is None else repr(t.location)
    return ("t", j1.shape, j1.tobytes(), j2.tobytes(), t.scale, t.format, t.precision, loc)


def canon(o, depth=0):
    """Canonical deep encoding of plain python containers (meta dicts etc.)."""
    if depth > 8:
        return ("deep",)
    if isinstance(o, dict):
        return ("dict", tuple((repr(k), canon(v, depth + 1)) for k, v in o.items()))
    if isinstance(o, (list, tuple)):
        return (type(o).__name__, tuple(canon(v, depth + 1) for v in o))
    if isinstance(o, np.ndarray):
        return snap_ndarray(o)
    if isinstance(o, (int, float, complex, str, bytes, bool, type(None))):
        return (type(o).__name__, repr(o))
    return ("obj", type(o).__name__, repr(o) if depth < 3 else "")


SIGNAL_ATTRS = ("sample_rate", "center_freq", "chan_bw")


def snap_signal(z):
    parts = [("cls", type(z).__name__), ("data", snap_data(z.data))]
    d = z.__dict__
    for name in ("_sample_rate", "_center_freq", "_chan_bw"):
        if name in d:
            parts.append((name, snap_quantity(d[name])))
    parts.append(("_start_time", snap_time(d.get("_start_time"))))
    parts.append(("_freq_align", d.get("_freq_align")))
    parts.append(("_pol_type", d.get("_pol_type")))
    parts.append(("_meta", canon(d.get("_meta"))))
    return tuple(parts)


READER_CONFIG = ("_shape", "_dtype", "_sample_rate", "_start_time", "_signal_type", "_signal_kwargs",
                 "_name", "_kwargs", "_intensity", "_complex_data", "_in_sample_shape",
                 "_lower_sideband")


def snap_reader(r):
    """The reader's configuration as the caller can observe it: the documented attributes
    and whatever signal_kwargs were set on it. Private scratch/cache attributes are NOT
    part of it (a harmless memo must not raise an alarm; what a stale cache does to later
    reads is judged by behaviour)."""
    d = r.__dict__
    keys = [k for k in READER_CONFIG if k in d] + sorted(k for k in d.get("_signal_kwargs", {}) if k in d)
    out = []
    for k in keys:
        out.append((k, snap_any(d[k], depth=1)))
    return ("reader", type(r).__name__, tuple(out))


def snap_any(o, depth=0):
    import astropy.units as u
    from astropy.time import Time
    import dask.array as da
    if o is None:
        return None
    if isinstance(o, u.Quantity):
        return snap_quantity(o)
    if isinstance(o, Time):
        return snap_time(o)
    if isinstance(o, np.ndarray):
        return snap_ndarray(o)
    if isinstance(o, da.Array):
        return snap_dask(o)
    if hasattr(o, "_data") and hasattr(o, "_sample_rate"):
        return snap_signal(o)
    if hasattr(o, "_read_array") and hasattr(o, "_shape"):
        return snap_reader(o) if depth == 0 else ("reader-ref",)
    if isinstance(o, list):
        # element identity and order matter for list arguments
        return ("list", tuple(("id", id(v)) if hasattr(v, "_data") else snap_any(v, depth + 1)
                              for v in o),
                tuple(snap_any(v, depth + 1) for v in o))
    if isinstance(o, tuple):
        return ("tuple", tuple(snap_any(v, depth + 1) for v in o))
    if isinstance(o, dict):
        return ("dict", tuple((repr(k), snap_any(v, depth + 1)) for k, v in o.items()))
    if isinstance(o, (int, float, complex, str, bytes, bool, np.generic)):
        return (type(o).__name__, repr(o))
    if isinstance(o, slice):
        return ("slice", repr(o))
    if isinstance(o, type):
        return ("type", o.__name__)
    return ("obj", type(o).__name__)


def describe_diff(a, b, path=""):
    """Name the first differing component of two snapshots."""
    if type(a) is not type(b):
        return f"{path}: type {type(a).__name__} -> {type(b).__name__}"
    if isinstance(a, tuple):
        if len(a) != len(b):
            return f"{path}: length {len(a)} -> {len(b)}"
        # labelled pair?
        for i, (x, y) in enumerate(zip(a, b)):
            if x != y:
                lab = a[0] if (i and isinstance(a[0], str)) else ""
                if isinstance(x, tuple) and isinstance(y, tuple):
                    return describe_diff(x, y, f"{path}/{lab}[{i}]")
                if isinstance(x, bytes) and isinstance(y, bytes):
                    n = sum(1 for p, q in zip(x, y) if p != q) + abs(len(x) - len(y))
                    return f"{path}/{lab}[{i}]: {n} of {len(x)} bytes differ"
                return f"{path}/{lab}[{i}]: {x!r} -> {y!r}"
        return f"{path}: ?"
    if a != b:
        return f"{path}: {a!r} -> {b!r}"
    return ""


def digest(snap):
    return hashlib.sha256(repr(snap).encode()).hexdigest()[:12]


def strip_ids(s):
    """Remove object identities (process-dependent) before hashing for the log."""
    if isinstance(s, tuple):
        if len(s) == 2 and s[0] == "id":
            return ("id",)
        return tuple(strip_ids(x) for x in s)
    return s
