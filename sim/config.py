"""Per-property check configuration (levels, budgets, evidence texts)."""

CONFIG = {
    "C09": {
        "level": "exploration",
        "engine": "A (simulated Dask cluster)",
        "technique": "deterministic simulation with fault injection: the real dask.local scheduler core driven by a simulated executor whose completion order, worker count, transport and faults come from a seeded tape; NumPy twin as reference model",
        "design_ref": "DESIGN.md section 3 and section 6 (C09)",
        "level_text": ("Seeded search over schedules (task completion orders of Dask's own local scheduler core and "
                       "arbitrary topological orders), worker counts, shared/pickled transports, chunk layouts, "
                       "pipelines of public operations and compute-time faults (abort, failing task); every run "
                       "compares the Dask result with the NumPy twin and checks laziness with sentinel sources and a "
                       "default-scheduler tripwire. Sampling is the honest level: the schedule space is unbounded."),
        "level_note": ("Trusted: Dask graph construction and dask.local.get_async (real code), NumPy/SciPy kernels; tasks "
                       "are atomic (no pre-emption inside a task except pulsarbat frames in the pre-emptive sub-mode); "
                       "values compared bit-for-bit (99.8 % identical on the unchanged tree), alarm only above tau = eps max|ref| (4 + 16 (1+log2 N) per FFT-based operation in the pipeline)."),
        "shrink_runs": 1200,
        "shrink_seconds": 120,
        "max_shrink_groups": 4,
        "quick_runs": 18000,
        "thorough_runs": 150000,
        "quick_wall_cap": 300,
        "thorough_wall_cap": 3000,
        "block": 25,
        "rule": ("A case is one seeded run. Scenario 'twin' (5 of 6 runs): a signal (any of the six classes, "
                 "1-96 samples (192 thorough), 1-8 channels (16), trailing axes, float/complex/integer dtypes, "
                 "metadata incl. bands across 0 Hz), its Dask twin over sentinel sources with a tape-drawn chunk "
                 "layout (time axis chunked in 1 of 6), a pipeline of 1-4 (6) public operations applied to both "
                 "(slices, ufuncs/operators, conversions, time/freq shift, snippet, concatenate, dedispersion, "
                 "chirp functions, signal_transform, stft/istft, the 14 pb.fft functions with axis/axes/n/norm, "
                 "container methods also on the NumPy twin), an optional scribble over the NumPy result followed "
                 "by a repeat, an optional fork (same operation twice with other arguments or on a derived input, "
                 "both in one graph), observers, then 2-4 computes under simulated schedulers (dask-core or "
                 "free-order mode, 1-16 workers, chunksize, shared/pickled/mixed transport, completion order, "
                 "optional abort / failing task, optional line-level pre-emption between in-flight tasks). "
                 "Scenario 'readers' (1 of 6): two readers (siblings with the same geometry, or the same file with "
                 "different sideband flags) read lazily, combined and pushed through the same machinery. "
                 "Non-trivial = at least one operation succeeded on both twins and more than one task executed; "
                 "distinct = distinct SHA-256 of the event log (case, operations, schedules, task completion "
                 "order hashes)."),
        "assumptions": [
            "the three local schedulers are modelled by dask.local.get_async with W workers and identity (threaded/synchronous) or cloudpickle (multiprocess, incl. cull+fuse) transport; dask.distributed is not installed and not modelled",
            "tasks execute atomically at their completion instant",
            "a difference below tau (see level_note) is counted, not alarmed",
            "a build-time exception from an FFT/reshape-based operation on input chunked along a transformed axis means 'chunking not accepted'",
        ],
        "real_vs_stub": {"real": ["pulsarbat (current working tree)", "dask graph construction/optimisation", "dask.local.get_async state machine, order(), cull, fuse", "numpy/scipy kernels", "cloudpickle"],
                         "stub": ["executor and result queue (simulated workers)", "scheduling policy in free-order mode"]},
    },
    "C14": {
        "level": "fault_enumeration",
        "engine": "C (shared-heap crash-point simulator)",
        "technique": "deterministic simulation with fault injection: seeded histories over a shared heap, exception injected at every line-level crash point of each tested call, byte-wise snapshot oracle",
        "design_ref": "DESIGN.md section 5 and section 6 (C14)",
        "level_text": ("For each sampled (heap state, public call) every line-level crash point inside "
                       "pulsarbat/ is injected once (Ctrl-C or MemoryError) and all caller-owned objects are "
                       "compared byte-wise with their pre-call snapshot; histories, heaps and arguments are "
                       "sampled by a seeded tape. Enumeration of the fault space per step, sampling above it: "
                       "the right level because the property quantifies over 'succeeds or raises' and over "
                       "sequences sharing inputs, which no finite test can cover and no input generator reaches."),
        "level_note": ("Trusted: CPython sys.settrace semantics; NumPy/SciPy/Dask/astropy calls are atomic between "
                       "crash points; the snapshot function (sim/snapshot.py). Sampled, not exhaustive, over "
                       "histories; exhaustive over line-level crash points of each tested step up to the cap."),
        "shrink_runs": 600,
        "shrink_seconds": 120,
        "max_shrink_groups": 4,
        "quick_runs": 1800,
        "thorough_runs": 12000,
        "quick_wall_cap": 240,
        "thorough_wall_cap": 3000,
        "block": 4,
        "rule": ("A case is one seeded history: a tape-drawn heap (1-3 signals of any class over writable NumPy "
                 "buffers in C/F/strided/reversed/channel-strided layout, a quarter of them Dask-backed, in one run "
                 "of four a reader with its constructor arguments, plus the library's mutable default arguments) "
                 "and 1-8 (quick) or 1-12 (thorough) public calls whose results and arguments join the heap "
                 "(all operations of the C09 registry, observers, DM functions, real_to_complex, constructors from "
                 "raw native/byte-swapped buffers with Time arguments of several formats, ufuncs with "
                 "where=/dtype=/casting=, pickling, compute under the simulated cluster, reader calls, and the "
                 "sanctioned in-place / out= forms incl. out= naming a third signal). For each step under test "
                 "EVERY line-level crash point inside pulsarbat/ is injected once (KeyboardInterrupt or "
                 "MemoryError subclass; for reader steps also an OSError at every open/seek/read/close; in the "
                 "thorough tier for one step in five also up to 300 instruction-level points), and the whole heap "
                 "is compared byte-wise with its pre-call snapshot after every execution; a write through an "
                 "alias is accepted only inside the alias group of the named target. Non-trivial = the run "
                 "enumerated the crash points of at least one step or has >= 2 steps; distinct = distinct SHA-256 "
                 "of the full event log."),
        "assumptions": [
            "crash points are line events of pulsarbat/ frames; NumPy/SciPy/Dask/astropy code runs atomically between them",
            "MemoryError and KeyboardInterrupt subclasses stand for a failed allocation and Ctrl-C",
            "snapshot covers the owning base buffer, dtype, shape, writeable flag, Dask graph name/chunks/embedded arrays, sample_rate/center_freq/chan_bw value bytes and unit, start_time (jd1, jd2, scale, format, precision, location), freq_align, pol_type, deep meta; astropy internal caches are excluded",
            "histories and heaps are sampled; crash points of each tested step are enumerated completely (up to the stated cap)",
        ],
        "real_vs_stub": {"real": ["pulsarbat (current working tree)", "numpy", "scipy.fft", "dask graph construction", "astropy"],
                         "stub": ["the trace function that raises at the chosen crash point"]},
    },
}


NOT_APPLICABLE = {
    "C01": "pure function of (metadata, slice): start/stop time after crops is arithmetic on values carried along; no schedule, clock, I/O, fault or library-kept state can change it, so simulation would only be input generation (crop timestamps are still compared with the NumPy twin / time_at inside C09 and C11 runs)",
    "C02": "channel labels are a closed-form function of (center_freq, chan_bw, nchan, align, slice); nothing for a scheduler or fault to act on",
    "C03": "time_shift is a pure numeric map of (data, shift); the broadcast-zeroing issue the property mentions is input-shape determined, reproducible by one call, not by a schedule (its Dask branch is exercised as an operation inside C09)",
    "C04": "freq_shift is a pure numeric map of (data, shift); no interleaving, I/O or fault dimension (Dask branch exercised inside C09)",
    "C05": "coherent dedispersion is a pure numeric map of (data, DM, frequencies); the delayed-chirp mechanism is a C09 operation, nothing else depends on order or faults",
    "C06": "closed-form delays and an index permutation determined by the arguments",
    "C07": "two-double arithmetic on operands; fallback branches are selected by operand type, not by a fault or order",
    "C08": "function of (polyco text, times); the file is consumed by sequential readline() with no retry/partial-read/recovery logic to fault, and the _intervals memo derives from columns never mutated",
    "C10": "accept/reject and joined metadata are determined by the pieces given (adjacent reader reads are concatenated and compared inside C11)",
    "C12": "snippet is a pure function of (signal, t, n) (it is an operation inside C09 and C14)",
    "C13": "per-sample 2x2 algebra; no state, schedule or I/O (Dask configuration is C09)",
    "C15": "ordering, reductions and decimal I/O of values; no state, no I/O, no schedule",
    "C16": "validation of constructor/setter arguments is a function of those arguments; the copy-through-compute/persist/to_dask_array/rechunk clause is part of C09 and decided there",
    "C17": "ufunc results are functions of the operands; in-place/out= forms are the sanctioned writes of the C14 model, Dask forms are C09",
    "C18": "integer functions memoised by lru_cache under CPython's own lock; neither call history nor caller threads can change a result",
    "C19": "real_to_complex is a pure array map (the reader path that depends on it is checked in C11 against an independent conversion)",
    "C20": "equality with a reference DFT and STFT labelling are functions of the input; the lazy-on-Dask clause is a C09 operation",
}

MANIFEST_TEXT = {
    "engines": [
        {"name": "A", "path": "sim/dasksim.py (scheduler), sim/c09.py (scenarios twin, readers)", "serves_properties": ["C09"],
         "kind_free_text": "simulated Dask cluster: the real dask.local.get_async state machine driven by a simulated executor (tape-chosen completion order, 1-16 workers, chunksize, shared/pickled/mixed transport, abort and task-failure faults, optional line-level pre-emption between in-flight tasks that run pulsarbat code) plus a free-order graph walker; NumPy twin as reference model; sentinel sources and a default-scheduler tripwire for laziness; fork, scribble and observer steps"},
        {"name": "B", "path": "sim/sched.py (baton scheduler, lock seam), sim/linemon.py (line events), sim/iosim.py (I/O seam), sim/files.py (files + reference model), sim/pristine.py (pristine forks), sim/c11.py (scenarios files, files_faults, store, files_deep)", "serves_properties": ["C11"],
         "kind_free_text": "simulated caller threads: real threads of which exactly one runs, pre-empted at every line event of pulsarbat/readers and utils code (sys.monitoring) and at every open/seek/read/close through a proxy for the module attribute `baseband` (in files_deep also at every line of the baseband package, run in a fresh fork of a pristine zygote); scheduler-aware locks (client lock=, locks created by library code, Dask's tokenize lock, astropy lazyproperty locks inside baseband); injected I/O errors at entry and mid-read, killed callers; per-file in-memory reference model; Dask reads computed under Engine A inside the caller thread"},
        {"name": "C", "path": "sim/heapsim.py, sim/inject.py, sim/snapshot.py", "serves_properties": ["C14"],
         "kind_free_text": "shared-heap crash-point simulator: seeded call histories over caller-owned buffers, arguments, readers and Dask-backed objects; exception injection at every line event (thorough: also instruction events) of pulsarbat code via sys.monitoring, OSError at every I/O seam call for reader steps, compute under Engine A; byte-exact snapshot oracle with an alias-group reference model for sanctioned in-place writes"},
    ],
    "notes": "Technique family: deterministic simulation with fault injection. One integer (VERIF_SEED + run index) seeds a choice tape that decides every generated object, operation, schedule and fault; every process runs under PYTHONHASHSEED=0; a violation is minimised by tape shrinking, written to replays/, and confirmed in a fresh interpreter before it is reported. Exit 2 + HARNESS-ERROR is never a verdict. Six genuine defects of the pinned tree were found and repaired in /repo (six 'fix:' commits); two are listed as known findings (dask.array.fft shape rule for irfft2/irfftn on a length-1 axis; baseband.open not thread-safe under concurrent reads without lock=): known_findings.json. Seventeen properties are pure functions of their arguments and are listed as not applicable (DESIGN.md section 6). ./selftest determinism and ./selftest sensitivity (17 hand-made mutants, 67 changes seeded by blind sub-agents) are the self-tests; DESIGN.md section 10 records what was missed on first contact and how it was closed.",
}


CONFIG["C11"] = {
    "level": "exploration",
    "engine": "B (simulated caller threads + I/O seam), A for Dask reads",
    "technique": "deterministic simulation with fault injection: baton-passed caller threads pre-empted at every line of reader code and every file-handle call, I/O seam with injected errors and killed callers, in-memory reference model of each file",
    "design_ref": "DESIGN.md section 4 and section 6 (C11)",
    "level_text": ("Seeded search over interleavings of 1-4 simulated caller threads (pre-emption at every line of "
                   "pulsarbat/readers and utils code and at open/seek/read/close), call histories (eager, Dask under the "
                   "simulated cluster, multi-output, pickled clones, client mutations, adjacent reads, round trips, "
                   "out-of-range requests) and I/O fault sequences; each completed call is compared with a reference model "
                   "of the file as the run proceeds and the history is checked afterwards. Sampling: the interleaving "
                   "space is unbounded."),
    "level_note": ("Trusted: baseband's decoding of the bytes on disk (the model is a direct baseband read mapped by the "
                   "documented axis/sideband rules, cross-checked against the arrays the check wrote); dependency code is "
                   "atomic between yield points; Hilbert-path values compared with an independent O(N^2) long-double "
                   "DFT within 64 eps(float32) log2(N) max|x|."),
    "shrink_runs": 1500,
    "shrink_seconds": 150,
    "max_shrink_groups": 4,
    "quick_runs": 7000,
    "thorough_runs": 60000,
    "quick_wall_cap": 400,
    "thorough_wall_cap": 3000,
    "block": 8,
    "rule": ("A case is one seeded run. Scenarios 'files' and 'files_faults' (2 of 5 runs each): 1-2 readers on "
             "files drawn from the four repository sample files and eleven synthesised file kinds (VDIF real/complex "
             "1-8 threads 2/8 bit, DADA complex/real/multi-file, multi-file GUPPI with OBSBW of either sign and "
             "LIN/CIRC, DADA Stokes with BW of either sign and even/odd channel counts; sideband flags "
             "none/all/mask given as bool array, bool list, int list or integer array; documented defaults "
             "sometimes omitted; pairs of sibling files or the same file with different options), 1-4 (6) "
             "simulated caller threads each running 1-6 (10) calls (read, dask_read and multi-output Dask reads "
             "under the simulated cluster, reads through pickle/cloudpickle/copy/deepcopy clones, adjacent reads, "
             "round trips, out-of-range requests, a read after the client overwrote an earlier result), a switch "
             "probability, optional shared client lock, optional stalls; with faults: OSError at open/seek/read "
             "(entry or mid-read)/close and killed callers. Scenario 'store' (1 of 5): BaseReader through a "
             "harness subclass over a virtual store, sample rates 1 mHz-2 GHz, lengths to 2e9, any signal "
             "class, with or without start time. Non-trivial = at least two recorded calls; distinct = distinct "
             "SHA-256 of the event log (case, every call's arguments/outcome/result hash in global order)."),
    "assumptions": [
        "pre-emption points are line events of pulsarbat/readers/* and pulsarbat/utils.py plus every call through the I/O seam; baseband/NumPy code is atomic between them",
        "short reads and flipped bytes are not injected: the stream-reader contract excludes short reads and the formats carry no checksum",
        "for lower-sideband GUPPI the model demands conjugation and stored channel order only",
        "a call hit by an injected fault may raise anything but must not return wrong data; calls not hit must behave as in the fault-free configuration",
    ],
    "real_vs_stub": {"real": ["pulsarbat readers (current working tree)", "baseband decoding", "files on a real file system", "numpy", "real_to_complex", "dask graph construction and dask.local core for Dask reads", "cloudpickle"],
                     "stub": ["who runs next (baton scheduler)", "file-handle proxy (pass-through + faults)", "SimLock", "executor for Dask reads", "block store behind SimStoreReader"]},
}
