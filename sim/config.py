"""Per-property check configuration (levels, budgets, evidence texts)."""

CONFIG = {
    "C14": {
        "level": "fault_enumeration",
        "engine": "C (shared-heap crash-point simulator)",
        "quick_runs": 1400,
        "thorough_runs": 40000,
        "quick_wall_cap": 240,
        "thorough_wall_cap": 3000,
        "block": 4,
        "rule": ("A case is one seeded history: a tape-drawn heap (1-3 signals of any class over "
                 "writable NumPy buffers in C/F/strided/reversed/channel-strided layout, some "
                 "Dask-backed, plus the library's mutable default arguments) and 1-8 (quick) or "
                 "1-12 (thorough) public calls whose results join the heap. For each step under "
                 "test EVERY line-level crash point inside pulsarbat/ is injected once "
                 "(KeyboardInterrupt or MemoryError subclass, per step), and the whole heap is "
                 "compared byte-wise with its pre-call snapshot after every execution. "
                 "Non-trivial = the run enumerated the crash points of at least one step or has "
                 ">= 2 steps; distinct = distinct SHA-256 of the full event log (world, steps, "
                 "arguments, outcomes, per-step crash-point counts, result hashes)."),
        "assumptions": [
            "crash points are line events of pulsarbat/ frames; NumPy/SciPy/Dask/astropy code runs atomically between them",
            "MemoryError and KeyboardInterrupt subclasses stand for a failed allocation and Ctrl-C",
            "snapshot covers the owning base buffer, dtype, shape, writeable flag, Dask graph name/chunks/embedded arrays, sample_rate/center_freq/chan_bw value bytes and unit, start_time (jd1, jd2, scale, format, precision, location), freq_align, pol_type, deep meta; astropy internal caches are excluded",
            "histories and heaps are sampled; crash points of each tested step are enumerated completely (up to the stated cap)",
        ],
        "real_vs_stub": {"real": ["pulsarbat (current working tree)", "numpy", "scipy.fft", "dask graph construction", "astropy"],
                         "stub": ["the trace function that raises at the chosen crash point"]},
    },
}
