"""Engine C — shared-heap crash-point simulator (decides C14).

World: a heap of caller-owned objects (signals over writable NumPy buffers of
several memory layouts, Dask-backed signals, aliases created by the library,
argument objects). History: a tape-drawn sequence of public calls on heap objects;
results join the heap. Faults: an exception (Ctrl-C or MemoryError) injected at
every line-level crash point of the step under test, one point per re-execution.
Oracle: after every call -- returned, raised on its own, or interrupted at any
crash point -- every heap object equals its pre-call snapshot; the only exception
is the target of an explicit in-place / out= call, whose aliased buffers are
re-baselined (metadata must still be unchanged).
"""

import pickle

import numpy as np

from . import core, files, gen, inject, iosim, ops, snapshot
from .core import Violation

MAX_HEAP = 10


class HObj:
    __slots__ = ("name", "obj", "kind", "origin", "group")

    def __init__(self, name, obj, kind, origin, group):
        self.name = name
        self.obj = obj
        self.kind = kind          # 'signal' | 'arg' | 'reader'
        self.origin = origin
        self.group = group        # alias group: objects that may legitimately share memory


# Reference model of aliasing: the operations whose RESULT may share memory with their input
# (documented view semantics: slices, like(), conversions that are no-ops, compute() on NumPy
# data, a constructor given the caller's buffer). Every other operation must return fresh
# memory, as its NumPy counterpart does (np.concatenate, np.stack, ufuncs, FFTs always copy).
# An in-place operator naming signal T therefore may change exactly the objects of T's alias
# group; a change that reaches another group through shared memory was not sanctioned.
ALIAS_OK = {"tslice", "fslice", "like", "fast_len", "snippet", "polconv", "container",
            "compute_sync", "ctor", "ctor_raw", "time_shift", "observe"}


def split_snap(o):
    """(meta_part, data_part) so that sanctioned writes can re-baseline data only."""
    s = snapshot.snap_any(o)
    if isinstance(s, tuple) and s and s[0] == ("cls", type(o).__name__):
        meta = tuple(p for p in s if p[0] != "data")
        data = tuple(p for p in s if p[0] == "data")
        return meta, data
    return (), s


def roots(o, depth=0):
    """Identities of the memory owners reachable from a signal's data / an array /
    a container of those."""
    import dask.array as da
    out = set()
    if isinstance(o, (list, tuple)) and depth < 3:
        for v in o:
            out |= roots(v, depth + 1)
        return out
    if isinstance(o, dict) and depth < 3:
        for v in o.values():
            out |= roots(v, depth + 1)
        return out
    d = getattr(o, "_data", o)
    if isinstance(d, np.ndarray):
        out.add(id(snapshot.root_of(d)))
    elif isinstance(d, da.Array):
        out.add(("da", id(d)))
        for a in snapshot.graph_arrays(d):
            out.add(id(snapshot.root_of(a)))
    return out


# --------------------------------------------------------------------------
# C-only operations (observers, helpers, sanctioned in-place forms)

class COp(ops.Op):
    sanctioned = False


C_OPS = {}


def cregister(cls):
    C_OPS[cls.name] = cls()
    return cls


@cregister
class Observe(COp):
    name = "observe"
    terminal = True

    def gen(self, tape, info):
        return {"what": ["str", "repr", "getters", "asarray", "get_axis", "len"][
            tape.draw(6, "obs.what")]}

    def call(self, pb, z, args, desc):
        w = desc["what"]
        if w == "str":
            return len(str(z))
        if w == "repr":
            return len(repr(z))
        if w == "len":
            return len(z)
        if w == "asarray":
            return np.asarray(z)
        if w == "get_axis":
            return (z.get_axis("time"), z.get_axis(-1))
        out = []
        for a in ("dt", "time_length", "stop_time", "shape", "sample_shape", "ndim", "dtype",
                  "sample_rate", "start_time", "meta", "axes_labels", "nchan", "bandwidth",
                  "max_freq", "min_freq", "channel_freqs", "center_freq", "chan_bw",
                  "freq_align", "pol_type"):
            if hasattr(z, a):
                out.append(repr(getattr(z, a))[:20])
        return len(out)


@cregister
class Contains(COp):
    name = "contains"
    terminal = True

    def gen(self, tape, info):
        return {"k": tape.draw(3, "cont.k"), "off": tape.rint(-2, 70, "cont.off")}

    def prepare(self, pb, z, desc):
        from astropy.time import Time
        import astropy.units as u
        base = z.start_time if z.start_time is not None else Time(
            "2021-03-04T05:06:07", format="isot", precision=9)
        if desc["k"] == 0:
            return {"t": base + desc["off"] / z.sample_rate}
        if desc["k"] == 1:
            return {"t": base + (np.arange(4) + desc["off"]) / z.sample_rate}
        return {"t": base + (np.arange(6).reshape(2, 3) - 1) * u.s}

    def call(self, pb, z, args, desc):
        r = z.contains(args["t"])
        return r, (args["t"] in z) if desc["k"] == 0 else None


@cregister
class DMFuncs(COp):
    name = "dm_funcs"
    terminal = True

    def applies(self, info):
        return info.is_radio

    def gen(self, tape, info):
        return {"dm": ops.DMS[tape.draw(len(ops.DMS), "dmf.dm")],
                "ref": ops.REFS[1 + tape.draw(len(ops.REFS) - 1, "dmf.ref")]}

    def prepare(self, pb, z, desc):
        return {"dm": pb.DM(desc["dm"]), "ref": ops._ref_freq(z, desc["ref"]),
                "f": z.channel_freqs}

    def call(self, pb, z, args, desc):
        dm, ref, f = args["dm"], args["ref"], args["f"]
        a = dm.time_delay(f, ref)
        b = dm.sample_delay(f, ref, z.sample_rate)
        c = dm.chirp_function(max(len(z), 1), z.dt, z.center_freq, ref)
        return a, b, c


@cregister
class RealToComplex(COp):
    name = "real_to_complex"
    terminal = True

    def gen(self, tape, info):
        return {"axis": tape.draw(info.ndim, "r2c.axis")}

    def prepare(self, pb, z, desc):
        import dask.array as da
        d = z.data
        if isinstance(d, da.Array):
            d = np.asarray(d.compute(scheduler="synchronous"))
        x = d.real if np.dtype(d.dtype).kind == "c" else d    # a view of the caller's buffer
        return {"x": x}

    def call(self, pb, z, args, desc):
        return pb.utils.real_to_complex(args["x"], axis=desc["axis"])


@cregister
class PickleRT(COp):
    name = "pickle"

    def call(self, pb, z, args, desc):
        return pickle.loads(pickle.dumps(z))


@cregister
class Compute(COp):
    name = "compute_sync"

    def gen(self, tape, info):
        return {"persist": tape.chance(1, 3, "comp.persist")}

    def call(self, pb, z, args, desc):
        if desc["persist"]:
            return z.persist(scheduler="synchronous")
        return z.compute(scheduler="synchronous")


@cregister
class ComputeSim(COp):
    """compute()/persist() of a Dask-backed heap signal under the simulated cluster
    (Engine A): tape-drawn worker count, transport and completion order, optionally an
    injected abort or failing task. No caller-owned object may change, whatever happens."""
    name = "compute_sim"
    no_line_enum = True

    def applies(self, info):
        return True

    def gen(self, tape, info):
        return {"persist": tape.chance(1, 3, "csim.persist"), "faults": tape.chance(1, 2, "csim.faults")}

    def call(self, pb, z, args, desc):
        import dask.array as da
        from .dasksim import SchedPlan, SimScheduler, SimAbort
        ctx = args["ctx"]
        if not isinstance(z.data, da.Array):
            z = z.to_dask_array()
        plan = SchedPlan(ctx.tape, "csim", allow_faults=desc["faults"])
        sim = SimScheduler(ctx, plan, "csim")
        ctx.probe("dask_heap_object_computed_under_engine_A")
        try:
            if desc["persist"]:
                return z.persist(scheduler=sim)
            return z.compute(scheduler=sim)
        except (SimAbort, inject.SimOSError) as e:
            ctx.probe("heap_compute_hit_by_injected_fault")
            return None


@cregister
class Ctor(COp):
    """Construct a new signal from an existing one's buffer and metadata objects."""
    name = "ctor"

    def gen(self, tape, info):
        return {"bad": tape.weighted([4, 1, 1, 1], "ctor.bad")}

    def prepare(self, pb, z, desc):
        import inspect
        kw = {}
        for k, v in inspect.signature(type(z)).parameters.items():
            if v.kind is not v.POSITIONAL_ONLY and hasattr(z, k):
                kw[k] = getattr(z, k)
        import astropy.units as u
        if desc["bad"] == 1:
            kw["sample_rate"] = -1 * u.Hz
        elif desc["bad"] == 2:
            kw["meta"] = 5
        elif desc["bad"] == 3:
            kw["start_time"] = "nonsense"
        return {"kw": kw}

    def call(self, pb, z, args, desc):
        return type(z)(z.data, **args["kw"])


@cregister
class UfuncKw(COp):
    """NumPy ufuncs called on signals with keyword arguments (where=, dtype=, casting=) and
    no out=: none of them names a target, so nothing the caller owns may change."""
    name = "ufunc_kw"
    terminal = True

    def gen(self, tape, info):
        return {"form": ["add_where", "conj_where", "radd_where", "mul_dtype", "sub_casting",
                         "add_where_signal"][tape.draw(6, "ukw.form")], "seed": tape.draw(64, "ukw.seed")}

    def prepare(self, pb, z, desc):
        rng = np.random.default_rng(desc["seed"])
        a = {"mask": rng.integers(0, 2, size=z.shape).astype(bool),
             "arr": rng.standard_normal(z.shape).astype(z.dtype)}
        if desc["form"] == "add_where_signal":
            a["w"] = type(z).like(z, rng.standard_normal(z.shape).astype(z.dtype))
        return a

    def call(self, pb, z, args, desc):
        f, m = desc["form"], args["mask"]
        if f == "add_where":
            return np.add(z, 1, where=m)
        if f == "conj_where":
            return np.conjugate(z, where=m)
        if f == "radd_where":
            return np.multiply(args["arr"], z, where=m)
        if f == "mul_dtype":
            return np.multiply(z, 2, dtype=np.result_type(z.dtype, np.float64))
        if f == "sub_casting":
            return np.subtract(z, args["arr"], casting="same_kind")
        if f == "add_where_signal":
            return np.add(z, args["w"], where=m)
        raise ValueError(f)


@cregister
class CtorRaw(COp):
    """Construct a signal directly from a caller-owned raw buffer (native or byte-swapped,
    C / Fortran / strided) and a caller-owned Time of some format and precision."""
    name = "ctor_raw"

    def gen(self, tape, info):
        return {"swap": tape.chance(1, 3, "craw.swap"),
                "layout": ["C", "F", "strided"][tape.draw(3, "craw.layout")],
                "time": ["keep", "isot3", "mjd", "unix", "isot9", "none"][tape.draw(6, "craw.time")],
                "seed": tape.draw(256, "craw.seed")}

    def prepare(self, pb, z, desc):
        import inspect
        from astropy.time import Time
        vals = gen.make_values(tuple(z.shape), str(z.dtype), desc["seed"])
        raw, owner = gen.lay_out(vals, desc["layout"])
        if desc["swap"]:
            sw = raw.dtype.newbyteorder()
            owner = owner.astype(sw)
            raw = owner if desc["layout"] != "strided" else owner[1::2]
        kw = {}
        for k, v in inspect.signature(type(z)).parameters.items():
            if v.kind is not v.POSITIONAL_ONLY and hasattr(z, k) and k != "start_time":
                kw[k] = getattr(z, k)
        t = {"keep": z.start_time, "none": None,
             "isot3": Time("2021-03-04T05:06:07.123", format="isot", scale="utc", precision=3),
             "mjd": Time(59277.25, format="mjd", scale="utc"),
             "unix": Time(1.6e9, format="unix"),
             "isot9": Time("2021-03-04T05:06:07", format="isot", precision=9)}[desc["time"]]
        return {"raw": raw, "owner": owner, "t": t, "kw": kw}

    def call(self, pb, z, args, desc):
        return type(z)(args["raw"], start_time=args["t"], **args["kw"])


@cregister
class InPlace(COp):
    """Explicitly sanctioned mutation: in-place operator / out= naming z."""
    name = "inplace"
    sanctioned = True

    def gen(self, tape, info):
        return {"form": ["iadd", "imul", "out_multiply", "isub_arr", "out_tuple", "out_third",
                         "out_third_where", "isub_signal"][tape.draw(8, "inp.form")],
                "seed": tape.draw(64, "inp.seed")}

    def prepare(self, pb, z, desc):
        rng = np.random.default_rng(desc["seed"])
        if desc["form"] == "isub_arr":
            w = rng.standard_normal(z.shape[1:]).astype(np.float32)
            return {"w": w}
        if desc["form"] in ("iadd", "isub_signal"):
            return {"w": type(z).like(z, np.ones(z.shape, z.dtype))}
        if desc["form"] in ("out_third", "out_third_where"):
            # np.add(z, w, out=c): c is the ONLY sanctioned target; z and w are plain inputs
            a = {"w": type(z).like(z, rng.standard_normal(z.shape).astype(z.dtype)),
                 "c": type(z).like(z, np.zeros(z.shape, z.dtype))}
            if desc["form"] == "out_third_where":
                a["mask"] = rng.integers(0, 2, size=z.shape[1:]).astype(bool)
            return a
        return {}

    def call(self, pb, z, args, desc):
        f = desc["form"]
        if f == "iadd":
            z += args["w"]
        elif f == "imul":
            z *= 2
        elif f == "out_multiply":
            np.multiply(z, 3, out=z)
        elif f == "isub_arr":
            z -= args["w"]
        elif f == "out_tuple":
            np.negative(z, out=(z,))
        elif f == "isub_signal":
            z -= args["w"]
        elif f == "out_third":
            np.add(z, args["w"], out=args["c"])
        elif f == "out_third_where":
            np.multiply(z, args["w"], out=args["c"], where=args["mask"])
        return None


READER_CALLS = ["read", "dask_read_compute", "time_offset", "oob", "pickle", "read_lock"]


def gen_reader_call(tape, length, label):
    kind = READER_CALLS[tape.weighted([5, 3, 2, 2, 1, 1], f"{label}.kind")]
    o = tape.draw(length + 1, f"{label}.o")
    n = tape.draw(min(length - o, 24) + 1, f"{label}.n")
    return {"kind": kind, "o": o, "n": n, "k": tape.draw(length + 1, f"{label}.k")}


def call_reader(pb, reader, desc, args):
    import astropy.units as u
    k = desc["kind"]
    if k == "read":
        return reader.read(desc["o"], desc["n"])
    if k == "read_lock":
        return reader.read(desc["o"], desc["n"], lock=args["lock"])
    if k == "dask_read_compute":
        z = reader.dask_read(desc["o"], desc["n"])
        return z.compute(scheduler="synchronous")
    if k == "time_offset":
        t = reader.time_at(desc["k"])
        a = reader.offset_at(t) if t is not None else None
        b = reader.offset_at(reader.time_at(desc["k"], unit=u.us))
        c = reader.offset_at(args["q"])
        if "t" in args:
            c = (c, reader.contains(args["t"]), args["t"] in reader, reader.contains(args["ts"]))
            try:
                reader.offset_at(args["t"])      # lower precision: may land on a neighbour or raise
            except EOFError:
                pass
        return (a, b, c, reader.stop_time, len(reader), reader.dt, reader.time_length)
    if k == "oob":
        return reader.read(len(reader) - 1 if len(reader) else 0, 3)
    if k == "pickle":
        import cloudpickle
        clone = cloudpickle.loads(cloudpickle.dumps(reader))
        return clone.read(desc["o"], desc["n"])
    raise ValueError(k)


def all_ops():
    d = dict(ops.OPS)
    d.update(C_OPS)
    return d


C_WEIGHTS = {"ufunc_kw": 2, "ctor_raw": 2, "compute_sim": 2, "observe": 2, "contains": 2, "inplace": 4, "istft": 3, "stft": 2,
             "time_shift": 3, "freq_shift": 3, "snippet": 2, "coherent_dd": 3,
             "incoherent_dd": 2, "concat": 3, "polconv": 3, "binary": 3, "ctor": 2}


# --------------------------------------------------------------------------

class Heap:
    def __init__(self, ctx):
        self.ctx = ctx
        self.objs = []
        self.base = {}       # name -> (meta, data)
        self.counter = 0

    def add(self, obj, kind, origin, group=None):
        name = f"h{self.counter}"
        self.counter += 1
        if group is None:
            group = f"g{self.counter}"
        h = HObj(name, obj, kind, origin, group)
        self.objs.append(h)
        self.base[name] = split_snap(obj)
        return h

    def signals(self):
        return [h for h in self.objs if h.kind == "signal"]

    def rebaseline(self, h):
        self.base[h.name] = split_snap(h.obj)

    def evict(self):
        while len(self.objs) > MAX_HEAP:
            h = self.objs.pop(1)      # keep h0, the oldest root
            self.base.pop(h.name, None)

    def check(self, opname, phase, sanctioned_target=None):
        """Compare every heap object with its baseline."""
        troots = roots(sanctioned_target.obj) if sanctioned_target is not None else set()
        for h in self.objs:
            meta0, data0 = self.base[h.name]
            meta1, data1 = split_snap(h.obj)
            aliased = bool(troots) and bool(roots(h.obj) & troots)
            if meta1 != meta0:
                d = snapshot.describe_diff(meta0, meta1)
                self.ctx.violate("input-mutated", f"{opname}:{h.kind}.metadata",
                                 f"{h.name} ({h.origin}) {phase}: {d}")
            if data1 != data0:
                if aliased and h.group == sanctioned_target.group:
                    self.ctx.probe("sanctioned_write_through_alias"
                                   if h is not sanctioned_target else "sanctioned_write")
                    self.base[h.name] = (meta1, data1)
                    continue
                if aliased and not isinstance(getattr(h.obj, "_data", h.obj), np.ndarray):
                    # C14 quantifies over NumPy-backed inputs. Dask itself hands out the same
                    # Array object from no-op slices and one-piece concatenations, and an
                    # in-place operator rebinds that object's graph: observed, not alarmed.
                    self.ctx.probe("dask_array_object_shared_across_alias_groups_(not_alarmed)")
                    self.base[h.name] = (meta1, data1)
                    continue
                if aliased:
                    d = snapshot.describe_diff(data0, data1)
                    self.ctx.violate(
                        "input-mutated", f"{opname}:write-through-unexpected-alias",
                        f"{h.name} ({h.origin}) changed through an in-place operation naming "
                        f"{sanctioned_target.name} ({sanctioned_target.origin}): the two share memory "
                        f"although no view-returning operation connects them {phase}: {d}")
                d = snapshot.describe_diff(data0, data1)
                self.ctx.violate("input-mutated", f"{opname}:{h.kind}.data",
                                 f"{h.name} ({h.origin}) {phase}: {d}")


def hidden_state(pb):
    """The library's mutable default-argument objects (shared between calls)."""
    import inspect
    out = []
    for fn in (pb.readers.BasebandReader.__init__, pb.readers.BasebandReader._read_baseband):
        for k, v in inspect.signature(fn).parameters.items():
            if isinstance(v.default, (dict, list)):
                out.append((f"{fn.__qualname__}.{k}", v.default))
    w = ops._wrapped(pb, "scale_add")
    for k, v in (getattr(w, "__kwdefaults__", None) or {}).items():
        if isinstance(v, (dict, list)):
            out.append((f"signal_transform.wrapper.{k}", v))
    return out


def reader_step(ctx, pb, heap, inj, io, rh, s, hist):
    """One call on a reader that lives on the heap; crash points are the line events of
    pulsarbat code AND every open/seek/read/close through the I/O seam."""
    tape = ctx.tape
    reader = rh.obj
    desc = gen_reader_call(tape, len(reader), f"s{s}.rc")
    enum_kind = tape.weighted([1, 2, 2, 2], f"s{s}.enum")     # none / interrupt / memory / io
    opname = "reader." + desc["kind"]
    ctx.log("step", s, opname, rh.name, desc, enum_kind)
    ctx.note(f"step {s}: {opname}({rh.name} = {rh.origin}) args={desc} "
             f"crash-enumeration={['none', 'interrupt', 'memory', 'io-error'][enum_kind]}")
    hist.append({"step": s, "op": opname, "target": rh.name, "args": desc,
                 "crash_enum": ["none", "interrupt", "memory", "io-error"][enum_kind]})
    args = {}
    if desc["kind"] == "read_lock":
        import threading
        args["lock"] = threading.RLock()     # re-entrant: an interrupt between the with-body and __exit__ leaves it held
    if desc["kind"] == "time_offset":
        import astropy.units as u
        from astropy.time import Time
        args["q"] = (desc["k"] / reader.sample_rate).to(u.ms)
        t = reader.time_at(desc["k"])
        if t is not None:
            args["t"] = Time(t.mjd, format="mjd", scale=t.scale) if desc["k"] % 2 else \
                Time(t.isot, format="isot", scale=t.scale, precision=6)
            args["ts"] = Time([t.jd1, t.jd1], [t.jd2, t.jd2], format="jd", scale=t.scale)
        for k, v in args.items():
            heap.add(v, "arg", f"argument {k} of step {s} {opname}")

    def thunk():
        core.clear_library_caches(pb)
        return call_reader(pb, reader, desc, args)

    io.forced = ("none", -1)
    for p in io.counts:
        io.counts[p] = 0
    outcome, val = inj.run(thunk)
    L = inj.count
    io_counts = dict(io.counts)
    ctx.steps += 1
    ctx.counts["ops"] += 1
    ctx.counts[f"op.{opname}.{outcome}"] += 1
    if outcome == "raise":
        if not isinstance(val, Exception):
            raise val
        ctx.probe("op_raised_on_its_own")
        ctx.log("raised", type(val).__name__)
    heap.check(opname, f"after fault-free call ({outcome})")
    if enum_kind in (1, 2) and L:
        exc = [None, inject.SimInterrupt, inject.SimMemoryError][enum_kind]
        kname = ["", "interrupt", "memory"][enum_kind]
        for k in range(min(L, 200)):
            io.forced = ("none", -1)
            inj.run(thunk, target=k, exc=exc)
            ctx.counts["injected_executions"] += 1
            if inj.fired:
                ctx.fault(kname)
            heap.check(opname, f"after {kname} at crash point {k}/{L} {inj.site}")
        ctx.counts["enumerated_steps"] += 1
        ctx.counts["crash_points"] += min(L, 200)
        ctx.log("enum", kname, L)
    elif enum_kind == 3:
        nf = 0
        for point in iosim.FAULT_POINTS:
            for k in range(io_counts.get(point, 0)):
                for p in io.counts:
                    io.counts[p] = 0
                io.forced = (point, k)
                inj.run(thunk)
                nf += 1
                ctx.counts["injected_executions"] += 1
                heap.check(opname, f"after injected OSError at {point} #{k}")
        io.forced = ("none", -1)
        ctx.counts["enumerated_steps"] += 1
        ctx.counts["crash_points"] += nf
        ctx.log("enum", "io", nf)
    io.forced = ("none", -1)
    if outcome == "ok" and isinstance(val, pb.Signal):
        h = heap.add(val, "signal", f"result of step {s} {opname}({rh.name})")
        ctx.log("result", h.name, type(val).__name__, val.shape, str(val.dtype))
    elif outcome == "ok":
        ctx.log("value", type(val).__name__)


def run(ctx):
    try:
        return _run(ctx)
    finally:
        seam = getattr(ctx, "_seam", None)
        if seam is not None:
            seam.__exit__(None, None, None)


def _run(ctx):
    pb = core.setup_imports()
    import dask.array as da
    tape = ctx.tape
    heap = Heap(ctx)
    inj = inject.Injector(opcodes=False)
    allops = all_ops()

    # ---- initial world -------------------------------------------------
    nsig = 1 + tape.weighted([5, 3, 1], "world.nsig")
    specs = []
    for i in range(nsig):
        spec = gen.gen_signal_spec(tape, label=f"w{i}", maxlen=64 if ctx.tier == "quick" else 192,
                                   big=ctx.tier != "quick")
        z, owner = gen.build_numpy(pb, spec)
        backing = "numpy"
        if tape.chance(1, 4, f"w{i}.dask"):
            chunks = gen.gen_chunks(tape, z.shape, label=f"w{i}.chunks")
            z = type(z).like(z, da.from_array(np.asarray(z.data), chunks=chunks))
            backing = "dask"
        specs.append({**spec, "backing": backing})
        heap.add(z, "signal", f"initial {spec['cls']} {spec['layout']} {backing}")
        if spec["layout"] not in ("C", "F"):
            ctx.probe("noncontiguous_input")
    for name, obj in hidden_state(pb):
        heap.add(obj, "arg", f"default-arg {name}")
    readers = []
    io = None
    if tape.chance(1, 4, "world.reader"):
        files.workdir()
        fs = files.gen_file_spec(tape, label="wr", kinds=[
            "dada_complex", "vdif_real", "guppi", "dada_stokes", "dada_multi", "vdif_complex",
            "dada_real", "sample_dada", "sample_guppi"])
        rs = files.reader_spec(fs)
        io = iosim.IOSim(ctx, None, 0)
        seam = iosim.installed(pb, io)
        seam.__enter__()
        ctx._seam = seam
        owned = {}
        try:
            rd = files.open_reader(pb, rs, owned)
        except Exception as e:          # not C14's business (C11 reports it); go on without a reader
            ctx.probe("reader_construction_failed")
            rd = None
        if rd is not None:
            readers.append(heap.add(rd, "reader", f"reader {rs['cls']} on {fs['kind']}"))
            for k, v in owned.items():
                if isinstance(v, (list, dict, np.ndarray)):
                    heap.add(v, "arg", f"constructor argument {k} of the reader")
        specs.append({"reader": rs})
        ctx.probe("reader_on_heap")
    ctx.log("world", specs)

    nsteps = 1 + tape.draw(8 if ctx.tier == "quick" else 12, "nsteps")
    hist = []
    ctx.sample = {"world": specs, "history": hist}
    for s in range(nsteps):
        if readers and tape.chance(1, 3, f"s{s}.readerstep"):
            reader_step(ctx, pb, heap, inj, io, readers[0], s, hist)
            heap.evict()
            continue
        sigs = heap.signals()
        # bias towards recent objects (outputs and aliases of earlier steps)
        w = [1 + i for i in range(len(sigs))]
        w.reverse()
        target = sigs[::-1][tape.weighted(w, f"s{s}.target")]
        z = target.obj
        info = ops.Info(z)
        names = [n for n, o in allops.items() if o.applies(info)]
        weights = [C_WEIGHTS.get(n, 1) for n in names]
        if isinstance(z.data, da.Array):
            # a lazy object on the heap: computing it is what may touch the buffers behind it
            weights = [w * 5 if n in ("compute_sim", "compute_sync") else w
                       for n, w in zip(names, weights)]
        opname = names[tape.weighted(weights, f"s{s}.op")]
        op = allops[opname]
        desc = op.gen(tape, info)
        enum_kind = tape.weighted([1, 2, 2], f"s{s}.enum")    # none / interrupt / memory
        ctx.log("step", s, opname, target.name, desc, enum_kind)
        ctx.note(f"step {s}: {opname}({target.name} = {target.origin}) args={desc} "
                 f"crash-enumeration={['none', 'interrupt', 'memory'][enum_kind]}")
        hist.append({"step": s, "op": opname, "target": target.name, "args": desc,
                     "crash_enum": ["none", "interrupt", "memory"][enum_kind]})

        # arguments are caller-owned objects: build once, put on the heap
        try:
            args = op.prepare(pb, z, desc)
        except Exception as e:       # generator could not build (e.g. zero-length input)
            ctx.log("prepare-failed", type(e).__name__)
            heap.check(opname, "after prepare")
            continue
        if opname == "compute_sim":
            args = dict(args)
            enum_kind = 0
        arg_h = []
        for k, v in args.items():
            if isinstance(v, (int, float, complex, str, bool, type(None))):
                continue
            shares = bool(roots(v) & roots(z))
            arg_h.append(heap.add(v, "arg", f"argument {k} of step {s} {opname}",
                                  group=target.group if shares else None))
            if isinstance(v, list):
                ctx.probe("list_argument")
        if isinstance(z.data, np.ndarray) and z.data.base is not None and target.origin.startswith("result"):
            ctx.probe("input_is_view_of_heap_object")

        sanc = target if getattr(op, "sanctioned", False) else None
        if sanc is not None and "c" in args:
            sanc = next(a for a in arg_h if a.obj is args["c"])     # out= names c, not z
        if opname == "compute_sim":
            args["ctx"] = ctx

        def thunk():
            core.clear_library_caches(pb)     # the lru_cache memo must not shorten re-executions
            return op.call(pb, z, args, desc)

        # ---- fault-free, counted ----
        outcome, val = inj.run(thunk)
        L = inj.count
        ctx.steps += 1
        ctx.counts["ops"] += 1
        ctx.counts[f"op.{opname}.{outcome}"] += 1
        if outcome == "raise":
            if isinstance(val, (AssertionError, ValueError, TypeError, IndexError, KeyError,
                                EOFError, ZeroDivisionError, NotImplementedError, AttributeError,
                                OverflowError, FloatingPointError, np.exceptions.AxisError)) \
                    or isinstance(val, Exception):
                ctx.probe("op_raised_on_its_own")
                ctx.log("raised", type(val).__name__)
            else:
                raise val
        heap.check(opname, f"after fault-free call ({outcome})", sanc)

        # ---- crash-point enumeration ----
        if enum_kind and L:
            exc = [None, inject.SimInterrupt, inject.SimMemoryError][enum_kind]
            kname = ["", "interrupt", "memory"][enum_kind]
            cap = 400 if ctx.tier == "quick" else 1500
            swallowed = 0
            for k in range(min(L, cap)):
                o2, v2 = inj.run(thunk, target=k, exc=exc)
                ctx.counts["injected_executions"] += 1
                if inj.fired:
                    ctx.fault(kname)
                    if o2 == "ok" or not isinstance(v2, exc):
                        swallowed += 1
                site = inj.site
                heap.check(opname, f"after {kname} at crash point {k}/{L} {site}", sanc)
            ctx.counts["enumerated_steps"] += 1
            ctx.counts["crash_points"] += min(L, cap)
            if swallowed:
                ctx.probe("fault_converted_by_library_handler", swallowed)
            ctx.log("enum", kname, L, swallowed)
            if outcome == "ok":
                ctx.probe("crash_after_possible_write")
            # thorough tier: for some steps also every INSTRUCTION of pulsarbat code (capped,
            # evenly strided): separates nested calls and statements sharing one line
            if ctx.tier == "thorough" and tape.chance(1, 5, f"s{s}.opcodes"):
                o3, v3 = inj.run_opcodes(thunk)
                LI = inj.count
                stride = max(1, LI // 300)
                nin = 0
                for k in range(0, LI, stride):
                    inj.run_opcodes(thunk, target=k, exc=exc)
                    nin += 1
                    ctx.counts["injected_executions"] += 1
                    if inj.fired:
                        ctx.fault(kname + "_at_instruction")
                    heap.check(opname, f"after {kname} at instruction-level crash point {k}/{LI} {inj.site}", sanc)
                ctx.counts["opcode_enumerated_steps"] += 1
                ctx.counts["instruction_crash_points"] += nin
                ctx.log("enum-opcodes", kname, LI, nin)
                ctx.probe("instruction_level_enumeration")

        # ---- result joins the heap ----
        if outcome == "ok" and isinstance(val, pb.Signal) and val is not z \
                and not (getattr(op, "terminal", False) and opname == "ufunc_kw"):
            # (ufunc_kw results hold uninitialised memory where the mask is False: never hashed,
            # never used again)
            origin = f"result of step {s} {opname}({target.name})"
            grp = target.group if opname in ALIAS_OK else None
            if opname == "ctor_raw":        # the new signal may wrap the raw buffer it was given
                grp = next((a.group for a in arg_h if a.obj is args.get("raw")), None)
                for a in arg_h:
                    if a.obj is args.get("owner"):
                        a.group = grp
            h = heap.add(val, "signal", origin, group=grp)
            ctx.log("result", h.name, type(val).__name__, val.shape, str(val.dtype),
                    core.hbytes(repr(snapshot.strip_ids(heap.base[h.name])).encode()))
            if isinstance(val.data, np.ndarray) and isinstance(z.data, np.ndarray) \
                    and np.shares_memory(val.data, z.data):
                ctx.probe("result_aliases_input")
        elif outcome == "ok":
            ctx.log("value", type(val).__name__)
        heap.evict()

    ctx.nontrivial = ctx.counts["enumerated_steps"] > 0 or nsteps >= 2
