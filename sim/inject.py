"""Crash-point injection through sys.settrace.

A 'crash point' is a line (or opcode) event in a frame whose code lives under
<repo>/pulsarbat/. Raising from the local trace function delivers the exception
at that point of the traced frame. Code outside pulsarbat/ (NumPy, SciPy, Dask,
astropy, baseband) is never traced: it runs atomically between crash points.
"""

import os
import sys

from . import core


class SimInterrupt(KeyboardInterrupt):
    """Injected Ctrl-C: not caught by `except Exception`."""


class SimMemoryError(MemoryError):
    """Injected failed allocation: caught by `except Exception` like a real one."""


class SimOSError(OSError):
    """Injected I/O failure."""


KINDS = {"interrupt": SimInterrupt, "memory": SimMemoryError}


class Injector:
    def __init__(self, prefix=None, opcodes=False):
        self.prefix = prefix or os.path.join(os.path.realpath(core.REPO), "pulsarbat") + os.sep
        self.opcodes = opcodes
        self.count = 0
        self.target = -1
        self.exc = None
        self.site = None
        self.fired = False
        self._fn_cache = {}

    def _is_ours(self, code):
        r = self._fn_cache.get(code)
        if r is None:
            fn = code.co_filename
            r = os.path.realpath(fn).startswith(self.prefix) if not fn.startswith("<") else False
            self._fn_cache[code] = r
        return r

    def _glob(self, frame, event, arg):
        if event == "call" and self._is_ours(frame.f_code):
            if self.opcodes:
                frame.f_trace_opcodes = True
            return self._local
        return None

    def _local(self, frame, event, arg):
        if event == ("opcode" if self.opcodes else "line"):
            k = self.count
            self.count = k + 1
            if k == self.target:
                self.fired = True
                self.site = (os.path.basename(frame.f_code.co_filename), frame.f_code.co_name,
                             frame.f_lineno)
                raise self.exc(f"injected at crash point {k}")
        return self._local

    def run(self, fn, target=-1, exc=None):
        """Run fn() with the k-th crash point raising `exc` (target<0: only count).
        Returns (outcome, value) with outcome in {'ok','raise'}."""
        self.count = 0
        self.target = target
        self.exc = exc
        self.site = None
        self.fired = False
        old = sys.gettrace()
        sys.settrace(self._glob)
        try:
            try:
                v = fn()
                return "ok", v
            except BaseException as e:  # noqa
                if isinstance(e, KeyboardInterrupt) and not isinstance(e, SimInterrupt):
                    raise
                return "raise", e
        finally:
            sys.settrace(old)
