"""Crash-point injection through sys.settrace.

A 'crash point' is a line (or opcode) event in a frame whose code lives under
<repo>/pulsarbat/. Raising from the local trace function delivers the exception
at that point of the traced frame. Code outside pulsarbat/ (NumPy, SciPy, Dask,
astropy, baseband) is never traced: it runs atomically between crash points.
"""

import os
import sys
import threading

from . import core


class SimInterrupt(KeyboardInterrupt):
    """Injected Ctrl-C: not caught by `except Exception`."""


class SimMemoryError(MemoryError):
    """Injected failed allocation: caught by `except Exception` like a real one."""


class SimOSError(OSError):
    """Injected I/O failure."""


KINDS = {"interrupt": SimInterrupt, "memory": SimMemoryError}


class Injector:
    """Counts the line events of pulsarbat/ code executed by fn() and raises the
    chosen exception at the k-th one. Uses sys.monitoring LINE events (see
    linemon.py for why not sys.settrace)."""

    def __init__(self, opcodes=False):
        from . import linemon
        self.mon = linemon.get_monitor("crash", 3, None)
        self.count = 0
        self.target = -1
        self.exc = None
        self.site = None
        self.fired = False
        self.thread = None

    def _cb(self, code, line):
        if threading.current_thread() is not self.thread:
            return
        k = self.count
        self.count = k + 1
        if k == self.target:
            self.fired = True
            self.site = (os.path.basename(code.co_filename), code.co_name, line)
            raise self.exc(f"injected at crash point {k}")

    def run_opcodes(self, fn, target=-1, exc=None):
        """Like run(), but crash points are INSTRUCTIONS of pulsarbat code (thorough tier)."""
        from . import linemon
        im = linemon.get_instruction_monitor()
        self.count = 0
        self.target = target
        self.exc = exc
        self.site = None
        self.fired = False
        self.thread = threading.current_thread()

        def cb(code, offset):
            if threading.current_thread() is not self.thread:
                return
            k = self.count
            self.count = k + 1
            if k == self.target:
                self.fired = True
                self.site = (os.path.basename(code.co_filename), code.co_name, f"+{offset}")
                raise self.exc(f"injected at instruction-level crash point {k}")

        im.callback = cb
        im.enable()
        try:
            try:
                return "ok", fn()
            except BaseException as e:  # noqa
                if isinstance(e, KeyboardInterrupt) and not isinstance(e, SimInterrupt):
                    raise
                return "raise", e
        finally:
            im.callback = None
            im.disable()

    def run(self, fn, target=-1, exc=None):
        """Run fn() with the k-th crash point raising `exc` (target<0: only count).
        Returns (outcome, value) with outcome in {'ok','raise'}."""
        self.count = 0
        self.target = target
        self.exc = exc
        self.site = None
        self.fired = False
        self.thread = threading.current_thread()
        self.mon.callback = self._cb
        try:
            try:
                v = fn()
                return "ok", v
            except BaseException as e:  # noqa
                if isinstance(e, KeyboardInterrupt) and not isinstance(e, SimInterrupt):
                    raise
                return "raise", e
        finally:
            self.mon.callback = None
