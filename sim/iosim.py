"""I/O seam for the readers: a proxy standing in for the module attribute
`pulsarbat.readers._baseband_readers.baseband`. Every baseband.open(...) made by
reader code returns a thin proxy around the REAL baseband stream reader; the proxy
yields to the simulated-thread scheduler at open / __enter__ / seek / read /
__exit__ / close, counts open handles, and injects faults chosen by the tape.
Decoding is real baseband code on real bytes on disk."""

import errno

from .inject import SimOSError

FAULT_POINTS = ("open", "seek", "read", "close")


class IOSim:
    def __init__(self, ctx, sched=None, fault_eighths=0):
        import baseband
        self.real = baseband
        self.ctx = ctx
        self.sched = sched
        self.fault_eighths = fault_eighths     # chance (in 1/64) of a fault per fault point
        self.open_handles = 0
        self.max_open = 0
        self.nopen = 0
        self.armed = True
        self.forced = None       # (point, k): fault exactly the k-th occurrence of point
        self.counts = {p: 0 for p in FAULT_POINTS}
        self.in_flight_between_seek_and_read = 0

    # attribute forwarding for anything else reader code may use
    def __getattr__(self, name):
        if name == "on_open":
            raise AttributeError(name)
        return getattr(self.real, name)

    def _yield(self, site):
        if self.sched is not None:
            self.sched.yield_point(site)

    def _maybe_fault(self, point, path):
        k = self.counts[point]
        self.counts[point] = k + 1
        t = self.sched.current if self.sched is not None else None
        fire = False
        if self.forced is not None:
            fire = self.forced == (point, k)
        elif self.armed and self.fault_eighths and t is not None:
            fire = self.ctx.tape.chance(self.fault_eighths, 64, f"io.fault.{point}")
        if fire:
            kind = "EIO"
            code = errno.EIO
            if point == "open" and self.forced is None:
                kind = ["EIO", "EMFILE", "ENOENT"][self.ctx.tape.draw(3, "io.fault.openkind")]
                code = {"EIO": errno.EIO, "EMFILE": errno.EMFILE, "ENOENT": errno.ENOENT}[kind]
            self.ctx.fault(f"io_{point}_{kind}")
            if t is not None:
                t.faulted_call = t.current_call
                self.ctx.note(f"{t.name}: injected OSError({kind}) at {point} of {path}")
                if self.open_handles > (1 if point != "open" else 0):
                    self.ctx.probe("fault_while_another_handle_open")
            raise SimOSError(code, f"injected {kind} at {point}")

    def _mid_read_fault(self):
        """Index of the frame fetch that fails inside this read, or None."""
        t = self.sched.current if self.sched is not None else None
        if self.forced is not None:
            if self.forced[0] == "read_mid":
                k = self.counts.get("read_mid", 0)
                self.counts["read_mid"] = k + 1
                return self.forced[2] if k == self.forced[1] else None
            return None
        if self.armed and self.fault_eighths and t is not None \
                and self.ctx.tape.chance(self.fault_eighths, 64, "io.fault.read_mid"):
            return self.ctx.tape.draw(3, "io.fault.read_mid.frame")
        return None

    def open(self, name, mode="rs", **kwargs):
        self._yield(("io", "open"))
        self._maybe_fault("open", name)
        fh = self.real.open(name, mode, **kwargs)
        self.nopen += 1
        cb = getattr(self, "on_open", None)
        if cb is not None:
            cb()
        self.open_handles += 1
        if self.open_handles > 1:
            self.ctx.probe("two_handles_open_simultaneously")
        self.max_open = max(self.max_open, self.open_handles)
        return FHProxy(self, fh, name)


class FHProxy:
    def __init__(self, io, fh, name):
        self.__dict__["_io"] = io
        self.__dict__["_fh"] = fh
        self.__dict__["_name"] = name
        self.__dict__["_closed"] = False
        self.__dict__["_sought"] = False

    def __getattr__(self, k):
        return getattr(self._fh, k)

    def __enter__(self):
        self._io._yield(("io", "enter"))
        return self

    def __exit__(self, *exc):
        self.close()
        return False

    def seek(self, *a, **kw):
        io = self._io
        io._yield(("io", "seek"))
        io._maybe_fault("seek", self._name)
        r = self._fh.seek(*a, **kw)
        self.__dict__["_sought"] = True
        io.in_flight_between_seek_and_read += 1
        sw0 = io.sched.switches if io.sched is not None else 0
        self.__dict__["_sw0"] = sw0
        return r

    def read(self, *a, **kw):
        io = self._io
        io._yield(("io", "read"))
        if self._sought:
            io.in_flight_between_seek_and_read -= 1
            self.__dict__["_sought"] = False
            if io.sched is not None and io.sched.switches != self.__dict__.get("_sw0", 0):
                io.ctx.probe("context_switch_between_seek_and_read")
        io._maybe_fault("read", self._name)
        j = io._mid_read_fault()
        if j is None or not hasattr(self._fh, "_read_frame"):
            return self._fh.read(*a, **kw)
        # a disk error in the MIDDLE of the read: the j-th frame fetch of this read fails,
        # after baseband has already advanced past the earlier frames
        fh = self._fh
        orig = fh._read_frame
        n = [0]

        def failing_read_frame(index):
            k = n[0]
            n[0] = k + 1
            if k == j:
                io.ctx.fault("io_read_mid_EIO")
                if k > 0:
                    io.ctx.probe("mid_read_fault_after_first_frame")
                t = io.sched.current if io.sched is not None else None
                if t is not None:
                    t.faulted_call = t.current_call
                    io.ctx.note(f"{t.name}: injected OSError(EIO) at frame fetch #{k} inside read of {self._name}")
                raise SimOSError(errno.EIO, f"injected EIO at frame fetch {k}")
            return orig(index)

        fh._read_frame = failing_read_frame
        try:
            return fh.read(*a, **kw)
        finally:
            try:
                del fh._read_frame
            except AttributeError:
                pass

    def close(self):
        io = self._io
        if self._closed:
            return
        self.__dict__["_closed"] = True
        io.open_handles -= 1
        io._yield(("io", "close"))
        try:
            io._maybe_fault("close", self._name)
        finally:
            self._fh.close()


class installed:
    """Context manager: install the seam into pulsarbat.readers._baseband_readers."""

    def __init__(self, pb, io):
        self.mod = pb.readers._baseband_readers
        self.io = io

    def __enter__(self):
        self.old = self.mod.baseband
        self.mod.baseband = self.io
        return self.io

    def __exit__(self, *exc):
        self.mod.baseband = self.old
        return False
