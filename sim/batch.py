"""Batch driver: N seeded runs over a fork pool, aggregation, minimisation,
fresh-interpreter confirmation, known-findings matching, evidence writing."""

import faulthandler
import json
import multiprocessing as mp
import os
import subprocess
import sys
import time
from collections import Counter
from concurrent.futures import ProcessPoolExecutor, wait, FIRST_COMPLETED
from concurrent.futures.process import BrokenProcessPool

from . import core, run as runmod, shrink as shrinkmod, replay as replaymod

RUN_TIMEOUT = 300          # wall seconds for ONE run before the worker is declared hung


def _worker(prop, indices, verif_seed, tier):
    out = []
    for idx in indices:
        faulthandler.dump_traceback_later(RUN_TIMEOUT, exit=True)
        try:
            res = runmod.run_seeded(prop, idx, verif_seed, tier=tier)
        finally:
            faulthandler.cancel_dump_traceback_later()
        keep = {k: res[k] for k in ("index", "scenario", "run_seed", "digest", "sched_digest",
                                    "nsched", "ndeviate", "steps", "probes", "faults", "counts",
                                    "nontrivial", "violation", "error", "discard")}
        if res["violation"] or res["error"]:
            keep["tape"] = res["tape"]
        if res["nontrivial"] and idx % 97 < 3:
            keep["sample"] = res["sample"]
        out.append(keep)
    return out


def _init_worker():
    # imports done in the parent before fork; nothing to do, but make sure a
    # dead child never leaves the parent waiting silently
    faulthandler.enable()


def load_known(prop):
    p = os.path.join(core.VERIF, "known_findings.json")
    if not os.path.exists(p):
        return []
    with open(p) as f:
        data = json.load(f)
    return [e for e in data.get("findings", []) if e.get("property") == prop]


def match_known(entries, violation):
    for e in entries:
        if e.get("status") != "known":
            continue
        if e.get("kind") == violation["kind"] and e.get("site") == violation["site"]:
            vt = violation.get("tags") or {}
            if all(vt.get(k) == v for k, v in (e.get("tags") or {}).items()):
                return e
    return None


def run_batch(prop, cfg, tier, verif_seed, nruns, workers, wall_cap, out=print):
    t0 = time.time()
    core.setup_imports()          # import once, children inherit by fork
    for sc in runmod.SCENARIOS[prop]:
        __import__(sc[1])
    from . import pristine
    pristine.ensure_zygote()      # before any run and before the workers are forked
    block = cfg.get("block", 4)
    blocks = [list(range(i, min(i + block, nruns))) for i in range(0, nruns, block)]
    agg = {"evaluations": 0, "discards": 0, "steps": 0, "nsched": 0, "deviating_runs": 0,
           "probes": Counter(), "faults": Counter(), "counts": Counter(),
           "by_scenario": Counter()}
    digests, nt_digests, sched_digests = set(), set(), set()
    samples, violations, errors = [], [], []
    known_entries = load_known(prop)
    n_unlisted_seen = 0
    stopped_early = False
    ctx = mp.get_context("fork")
    try:
        with ProcessPoolExecutor(max_workers=workers, mp_context=ctx,
                                 initializer=_init_worker) as ex:
            pending = set()
            it = iter(blocks)

            def submit_more():
                nonlocal stopped_early
                while len(pending) < workers * 2:
                    if time.time() - t0 > wall_cap:
                        stopped_early = True
                        return
                    b = next(it, None)
                    if b is None:
                        return
                    pending.add(ex.submit(_worker, prop, b, verif_seed, tier))

            submit_more()
            while pending:
                done, _ = wait(pending, timeout=RUN_TIMEOUT * 2, return_when=FIRST_COMPLETED)
                if not done:
                    raise RuntimeError("no worker progress within the hang limit")
                for f in done:
                    pending.discard(f)
                    for r in f.result():
                        if r["discard"]:
                            agg["discards"] += 1
                            continue
                        agg["evaluations"] += 1
                        agg["by_scenario"][r["scenario"]] += 1
                        agg["steps"] += r["steps"]
                        agg["nsched"] += r["nsched"]
                        if r["ndeviate"]:
                            agg["deviating_runs"] += 1
                        agg["probes"].update(r["probes"])
                        agg["faults"].update(r["faults"])
                        agg["counts"].update(r["counts"])
                        digests.add(r["digest"][:20])
                        if r["nontrivial"]:
                            nt_digests.add(r["digest"][:20])
                        if r["nsched"]:
                            sched_digests.add(r["sched_digest"])
                        if r.get("sample") is not None and len(samples) < 4:
                            samples.append({"index": r["index"], "run_seed": r["run_seed"],
                                            "scenario": r["scenario"], "case": r["sample"]})
                        if r["violation"]:
                            violations.append(r)
                            if match_known(known_entries, r["violation"]) is None:
                                n_unlisted_seen += 1
                        if r["error"]:
                            errors.append(r)
                if n_unlisted_seen >= int(os.environ.get("VERIF_STOP_AFTER", "200")) or len(errors) >= 5:
                    stopped_early = True
                    for p in pending:
                        p.cancel()
                    break
                submit_more()
    except (BrokenProcessPool, RuntimeError) as e:
        out(f"HARNESS-ERROR worker died or hung: {e!r}")
        return 2, None

    wall = time.time() - t0
    if errors:
        for r in errors[:3]:
            out(f"HARNESS-ERROR exception in run index={r['index']} scenario={r['scenario']} "
                f"run_seed={r['run_seed']}\n{r['error']}")
        return 2, None

    # ---- violations: group, minimise, confirm, match known findings ----------
    known = load_known(prop)
    groups = {}
    for r in sorted(violations, key=lambda r: r["index"]):
        groups.setdefault((r["scenario"], r["violation"]["kind"], r["violation"]["site"]), []).append(r)
    n_unlisted = 0
    reported = []
    harness_bad = False
    for gi, ((scenario, kind, site), rs) in enumerate(sorted(groups.items())):
        r = min(rs, key=lambda r: len(r["tape"]))
        key = (kind, site)
        if gi < cfg.get("max_shrink_groups", 6):
            best, nshr = shrinkmod.shrink(prop, scenario, r["tape"], key, tier=tier,
                                          max_runs=cfg.get("shrink_runs", 300),
                                          max_seconds=cfg.get("shrink_seconds", 90))
        else:
            best, nshr = r["tape"], 0
        final = runmod.run_tape(prop, scenario, best, tier=tier, keep_events=True)
        if not shrinkmod.same(final, key):
            best = r["tape"]
            final = runmod.run_tape(prop, scenario, best, tier=tier, keep_events=True)
        path = replaymod.write_replay(prop, scenario, tier, verif_seed, r, best, final,
                                      len(r["tape"]), nshr, len(rs))
        ok, msg = replaymod.confirm_fresh(prop, path)
        if not ok:
            out(f"HARNESS-ERROR nonreproducible replay={path} {msg}")
            harness_bad = True
            continue
        e = match_known(known, final["violation"])
        if e is not None:
            out(f"KNOWN-FINDING: property={prop} {e.get('what', '')} "
                f"[{kind} @ {site}; {len(rs)} run(s); replay={path}]")
            reported.append({"known": True, "kind": kind, "site": site, "runs": len(rs),
                             "replay": path})
        else:
            n_unlisted += 1
            out(f"VIOLATION property={prop} replay={path}")
            out(f"  {kind} @ {site}: {final['violation']['detail']}")
            out(f"  {len(rs)} of {agg['evaluations']} runs; minimised tape {len(r['tape'])} -> "
                f"{len(best)} entries; first index {r['index']} run_seed {r['run_seed']}")
            reported.append({"known": False, "kind": kind, "site": site, "runs": len(rs),
                             "replay": path})
    if harness_bad:
        return 2, None

    ev = {
        "property_id": prop,
        "tier": tier,
        "seed": int(verif_seed),
        "level": cfg["level"],
        "coverage": {
            "evaluations": agg["evaluations"],
            "distinct_nontrivial": len(nt_digests),
            "rule": cfg["rule"],
            "samples": samples or [{"note": "no sample retained"}],
            "distinct_runs_by_event_log_digest": len(digests),
            "runs_by_scenario": dict(agg["by_scenario"]),
            "logical_steps": agg["steps"],
            "scheduling_decisions": agg["nsched"],
            "distinct_schedules_by_decision_digest": len(sched_digests),
            "runs_deviating_from_default_schedule": agg["deviating_runs"],
            "fault_kinds_fired": dict(agg["faults"]),
            "reach_probes": dict(agg["probes"]),
            "counts": dict(agg["counts"]),
            "discarded_cases": agg["discards"],
            "runs_per_hour": round(agg["evaluations"] / max(wall, 1e-9) * 3600),
            "simulated_time": "none: the library reads no clock; logical steps are reported instead",
            "workers": workers,
            "stopped_early_at_wall_cap": stopped_early,
            "runs_requested": nruns,
            "real_vs_stub": cfg["real_vs_stub"],
            "violations_reported": reported,
            "exhaustive": False,
        },
        "assumptions": cfg["assumptions"],
        "wall_s": round(wall, 2),
        "violations": n_unlisted,
    }
    for k, v in cfg.get("extra_coverage", {}).items():
        ev["coverage"][k] = v
    return (1 if n_unlisted else 0), ev


def write_evidence(prop, ev):
    d = os.path.join(core.VERIF, "evidence")
    os.makedirs(d, exist_ok=True)
    p = os.path.join(d, f"{prop}.json")
    tmp = p + ".tmp"
    with open(tmp, "w") as f:
        json.dump(ev, f, indent=1, default=str)
    os.replace(tmp, p)
    return p
