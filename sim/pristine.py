"""Pristine execution for scenarios whose outcome depends on process-global state INSIDE a
dependency (the 'files_deep' scenario pre-empts baseband's own code, and baseband keeps
first-use state: format registries, lazily built tables, warning registries).

A zygote process is forked from a process that has imported everything but has not executed
a single run. Every run of such a scenario is then executed in a fresh fork of the zygote, so
it always starts from the same state: the one a fresh interpreter has after the imports,
which is also where a replay starts. The zygote is a tiny forking server on a Unix socket.
"""

import atexit
import os
import pickle
import signal
import socket
import struct
import sys
import tempfile

STATE = {"zygote_pid": None, "sock": None, "runs_executed": 0, "in_child": False}


def _send(conn, obj):
    b = pickle.dumps(obj)
    conn.sendall(struct.pack("!Q", len(b)) + b)


def _recv(conn):
    hdr = b""
    while len(hdr) < 8:
        c = conn.recv(8 - len(hdr))
        if not c:
            raise EOFError("zygote connection closed")
        hdr += c
    (n,) = struct.unpack("!Q", hdr)
    buf = bytearray()
    while len(buf) < n:
        c = conn.recv(min(1 << 20, n - len(buf)))
        if not c:
            raise EOFError("zygote connection closed")
        buf += c
    return pickle.loads(bytes(buf))


def ensure_zygote():
    """Create the zygote if this process is still pristine and none exists."""
    if STATE["sock"] is not None or STATE["in_child"]:
        return True
    if STATE["runs_executed"] > 0:
        return False
    d = tempfile.mkdtemp(prefix="pbverif-zyg-")
    path = os.path.join(d, "z.sock")
    srv = socket.socket(socket.AF_UNIX, socket.SOCK_STREAM)
    srv.bind(path)
    srv.listen(64)
    parent = os.getpid()
    pid = os.fork()
    if pid == 0:
        # ---- zygote: never executes a run itself ----
        try:
            signal.signal(signal.SIGCHLD, signal.SIG_IGN)      # auto-reap handlers
            srv.settimeout(2.0)
            while True:
                if os.getppid() != parent:
                    break
                try:
                    conn, _ = srv.accept()
                except socket.timeout:
                    continue
                except OSError:
                    break
                hp = os.fork()
                if hp == 0:
                    # ---- handler: a pristine copy; executes exactly one run ----
                    try:
                        srv.close()
                        STATE["in_child"] = True
                        signal.signal(signal.SIGCHLD, signal.SIG_DFL)
                        req = _recv(conn)
                        from . import run as runmod
                        res = runmod.execute_direct(*req["args"], **req["kwargs"])
                        _send(conn, res)
                    except BaseException as e:  # noqa
                        try:
                            _send(conn, {"__error__": repr(e)})
                        except Exception:
                            pass
                    finally:
                        try:        # the run's private scratch directory (atexit does not run here)
                            from . import files as _files
                            if _files._STATE["pid"] == os.getpid() and _files._STATE["dir"]:
                                import shutil
                                shutil.rmtree(_files._STATE["dir"], ignore_errors=True)
                        except Exception:
                            pass
                        os._exit(0)
                conn.close()
        finally:
            os._exit(0)
    srv.close()
    STATE["zygote_pid"], STATE["sock"] = pid, path
    owner = os.getpid()

    def cleanup():
        if os.getpid() != owner:
            return
        try:
            os.kill(pid, signal.SIGTERM)
        except OSError:
            pass
        try:
            os.unlink(path)
            os.rmdir(d)
        except OSError:
            pass

    atexit.register(cleanup)
    return True


def run_in_pristine_child(args, kwargs):
    if not ensure_zygote():
        raise RuntimeError("no pristine zygote available (the process has already executed runs)")
    conn = socket.socket(socket.AF_UNIX, socket.SOCK_STREAM)
    conn.settimeout(600)
    conn.connect(STATE["sock"])
    try:
        _send(conn, {"args": args, "kwargs": kwargs})
        res = _recv(conn)
    finally:
        conn.close()
    if "__error__" in res:
        raise RuntimeError("pristine child failed: " + res["__error__"])
    return res
