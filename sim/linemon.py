"""Line-level pre-emption / crash points through sys.monitoring (PEP 669).

sys.settrace turned out NOT to be deterministic on CPython 3.12: after a code path
has been warmed up, property getters reached through the specialised
LOAD_ATTR_PROPERTY instruction no longer produce a 'call' event, so the number of
line events of one and the same operation depended on what the process had run
before. LINE events of sys.monitoring are attached to the code objects themselves
and do not depend on how a frame was entered (measured: identical counts over
repeated executions and across processes).

The monitor is installed once per process on every code object defined in the
selected pulsarbat source files; the callback is a cheap no-op unless an engine
has armed it. An exception raised by the callback propagates into the monitored
code at that line.
"""

import os
import sys
import threading
import types

from . import core

_mon = sys.monitoring
_TOOLS = {}


def _collect(obj, seen, root):
    if isinstance(obj, types.CodeType):
        if obj in seen:
            return
        fn = obj.co_filename
        if fn.startswith("<") or not os.path.realpath(fn).startswith(root):
            return
        seen.add(obj)
        for c in obj.co_consts:
            if isinstance(c, types.CodeType):
                _collect(c, seen, root)
    elif isinstance(obj, types.FunctionType):
        _collect(obj.__code__, seen, root)
        w = getattr(obj, "__wrapped__", None)
        if w is not None and w is not obj:
            _collect(w, seen, root)
    elif isinstance(obj, property):
        for g in (obj.fget, obj.fset, obj.fdel):
            if g is not None:
                _collect(g, seen, root)
    elif isinstance(obj, (classmethod, staticmethod)):
        _collect(obj.__func__, seen, root)
    elif isinstance(obj, type):
        if getattr(obj, "__module__", "").startswith("pulsarbat"):
            for v in list(vars(obj).values()):
                _collect(v, seen, root)
    elif hasattr(obj, "__wrapped__") and hasattr(obj, "cache_info"):     # lru_cache wrapper
        _collect(obj.__wrapped__, seen, root)


def pulsarbat_code_objects(subpaths=None):
    """All code objects defined in <repo>/pulsarbat/ (optionally only files whose path
    relative to pulsarbat/ starts with one of `subpaths`)."""
    core.setup_imports()
    root = os.path.join(os.path.realpath(core.REPO), "pulsarbat") + os.sep
    seen = set()
    for name, mod in list(sys.modules.items()):
        if not name.startswith("pulsarbat") or mod is None:
            continue
        for v in list(vars(mod).values()):
            _collect(v, seen, root)
    if subpaths is not None:
        pref = tuple(root + s for s in subpaths)
        seen = {c for c in seen if os.path.realpath(c.co_filename).startswith(pref)}
    return seen


def with_exit_offsets(code):
    """Offsets of the instruction that starts the normal-exit sequence of a `with`
    statement (LOAD_CONST None x3, CALL 2). That sequence carries the line number of
    the `with` line but lies OUTSIDE the range protected by the with's exception
    handler: an exception delivered there skips __exit__ (CPython behaviour, also for a
    real signal), which would leak the lock or file handle. Such events are never
    delivered: no crash point, no pre-emption, no kill."""
    import dis
    ins = list(dis.get_instructions(code))
    out = set()

    def is_exit_seq(j):
        a, b, c, d = ins[j:j + 4] if j + 4 <= len(ins) else (None,) * 4
        return d is not None and a.opname == b.opname == c.opname == "LOAD_CONST" \
            and a.argval is None and b.argval is None and c.argval is None \
            and d.opname == "CALL" and d.arg == 2

    for i, x in enumerate(ins):
        # (execution may ENTER these sequences by a jump, so `starts_line` is irrelevant)
        # the exception path of a `with` (PUSH_EXC_INFO, WITH_EXCEPT_START) also carries
        # the `with` line and is equally unprotected until __exit__ has been called
        if x.opname == "PUSH_EXC_INFO" and i + 1 < len(ins) and ins[i + 1].opname == "WITH_EXCEPT_START":
            out.add(x.offset)
            out.add(ins[i + 1].offset)
            continue
        if is_exit_seq(i):
            out.add(x.offset)
            # the sequence may begin with SWAP/COPY instructions that save a return value
            k = i - 1
            while k >= 0 and ins[k].opname in ("SWAP", "COPY") and i - k <= 2:
                out.add(ins[k].offset)
                k -= 1
    return frozenset(out)


def package_code_objects(package):
    """All code objects defined in an installed package (e.g. 'baseband'): used by the deep
    reader scenario, where pre-emption reaches into the dependency that does the file I/O."""
    import importlib
    mod = importlib.import_module(package)
    root = os.path.dirname(os.path.realpath(mod.__file__)) + os.sep
    seen = set()

    def collect(obj):
        if isinstance(obj, types.CodeType):
            if obj in seen or obj.co_filename.startswith("<") \
                    or not os.path.realpath(obj.co_filename).startswith(root):
                return
            seen.add(obj)
            for c in obj.co_consts:
                if isinstance(c, types.CodeType):
                    collect(c)
        elif isinstance(obj, types.FunctionType):
            collect(obj.__code__)
        elif isinstance(obj, property):
            for g in (obj.fget, obj.fset, obj.fdel):
                if g is not None:
                    collect(g)
        elif isinstance(obj, (classmethod, staticmethod)):
            collect(obj.__func__)
        elif isinstance(obj, type) and getattr(obj, "__module__", "").startswith(package):
            for v in list(vars(obj).values()):
                collect(v)
        elif hasattr(obj, "fget") and callable(getattr(obj, "fget", None)):      # lazyproperty
            collect(obj.fget)

    for name, m in list(sys.modules.items()):
        if (name == package or name.startswith(package + ".")) and m is not None:
            for v in list(vars(m).values()):
                collect(v)
    return seen


class LineMonitor:
    """One sys.monitoring tool with LINE events on a fixed set of code objects.

    Delivered events are *line changes within one frame activation*: CPython re-fires
    a LINE event for the line of a call when the callee returns, but only if the
    callee was entered through a C-level call and not through an inlined
    (specialised) call -- so that re-fire depends on interpreter warm-up. A
    per-thread shadow stack of (code, last line), maintained from
    PY_START/PY_RESUME/PY_RETURN/PY_YIELD, suppresses every event whose line equals
    the last one delivered for that activation, which makes the delivered sequence a
    function of the executed code path only."""

    def __init__(self, tool_id, name, subpaths=None, packages=()):
        self.tool_id = tool_id
        self.name = name
        self.subpaths = subpaths
        self.packages = tuple(packages)
        self.callback = None
        self.installed = False
        self.tls = threading.local()

    def install(self):
        if self.installed:
            return
        try:
            _mon.use_tool_id(self.tool_id, self.name)
        except ValueError:
            pass
        self.codes = set(pulsarbat_code_objects(self.subpaths))
        for pkg in self.packages:
            self.codes |= package_code_objects(pkg)
        self.skip = {c: with_exit_offsets(c) for c in self.codes}
        ev = _mon.events
        _mon.register_callback(self.tool_id, ev.LINE, self._line)
        _mon.register_callback(self.tool_id, ev.PY_START, self._enter)
        _mon.register_callback(self.tool_id, ev.PY_RESUME, self._enter)
        _mon.register_callback(self.tool_id, ev.PY_RETURN, self._leave)
        _mon.register_callback(self.tool_id, ev.PY_YIELD, self._leave)
        for c in self.codes:
            _mon.set_local_events(self.tool_id, c,
                                  ev.LINE | ev.PY_START | ev.PY_RESUME | ev.PY_RETURN | ev.PY_YIELD)
        self.installed = True

    def _stack(self):
        st = getattr(self.tls, "stack", None)
        if st is None:
            st = self.tls.stack = []
        return st

    def _enter(self, code, offset):
        self._stack().append([code, None])

    def _leave(self, code, offset, retval):
        st = self._stack()
        while st:
            top = st.pop()
            if top[0] is code:
                break

    def _line(self, code, line):
        st = self._stack()
        # frames that were unwound by an exception leave stale entries: drop them
        while st and st[-1][0] is not code:
            st.pop()
        if not st:
            st.append([code, None])
        top = st[-1]
        if top[1] == line:
            return
        top[1] = line
        sk = self.skip.get(code)
        if sk and sys._getframe(1).f_lasti in sk:
            return          # normal-exit sequence of a `with`: not interruptible (see above)
        cb = self.callback
        if cb is not None:
            return cb(code, line)


def with_unprotected_ranges(code):
    """All instruction offsets inside the unprotected `with` exit / handler-entry sequences
    (for instruction-level crash points)."""
    import dis
    ins = list(dis.get_instructions(code))
    out = set()
    starts = with_exit_offsets(code)
    active = False
    for x in ins:
        if x.offset in starts:
            active = True
        if active:
            out.add(x.offset)
            if x.opname in ("CALL", "WITH_EXCEPT_START"):
                active = False
    return frozenset(out)


class InstructionMonitor:
    """INSTRUCTION events on all pulsarbat code objects, switched on only while an
    opcode-level enumeration runs (the instrumentation is expensive)."""

    def __init__(self, tool_id=2):
        self.tool_id = tool_id
        self.callback = None
        self.ready = False

    def _prepare(self):
        if self.ready:
            return
        try:
            _mon.use_tool_id(self.tool_id, "pbverif-instr")
        except ValueError:
            pass
        self.codes = pulsarbat_code_objects(None)
        self.skip = {c: with_unprotected_ranges(c) for c in self.codes}
        _mon.register_callback(self.tool_id, _mon.events.INSTRUCTION, self._instr)
        self.ready = True

    def _instr(self, code, offset):
        cb = self.callback
        if cb is None:
            return
        sk = self.skip.get(code)
        if sk and offset in sk:
            return
        return cb(code, offset)

    def enable(self):
        self._prepare()
        for c in self.codes:
            _mon.set_local_events(self.tool_id, c, _mon.events.INSTRUCTION)

    def disable(self):
        for c in self.codes:
            _mon.set_local_events(self.tool_id, c, 0)


_INSTR = {}


def get_instruction_monitor():
    m = _INSTR.get("m")
    if m is None:
        m = _INSTR["m"] = InstructionMonitor()
    return m


def get_monitor(key, tool_id, subpaths=None, packages=()):
    m = _TOOLS.get(key)
    if m is None:
        m = LineMonitor(tool_id, f"pbverif-{key}", subpaths, packages)
        _TOOLS[key] = m
    m.install()
    return m
