"""Files for the reader simulation: the repository's four sample files plus files
synthesised with baseband's writers from arrays the check chose.

Every process works in a private scratch directory and refers to files by
RELATIVE names (content-addressed for synthesised files), so that Dask tokens of
readers -- which include the file name -- are identical across processes.
"""

import atexit
import hashlib
import json
import os
import shutil

import numpy as np

from . import core

_STATE = {"dir": None, "pid": None}
ROOT_PREFIX = "/tmp/pbverif-"


def workdir():
    """Create (once per process) and chdir into the private scratch directory."""
    pid = os.getpid()
    if _STATE["pid"] == pid and _STATE["dir"] and os.path.isdir(_STATE["dir"]):
        if os.getcwd() != _STATE["dir"]:
            os.chdir(_STATE["dir"])
        return _STATE["dir"]
    parent = os.environ.get("VERIF_PARENT_PID", str(pid))
    d = f"{ROOT_PREFIX}{parent}-{pid}"
    os.makedirs(d, exist_ok=True)
    samples = os.path.join(d, "samples")
    if not os.path.exists(samples):
        os.symlink(os.path.join(os.path.realpath(core.REPO), "tests", "data"), samples)
    os.chdir(d)
    _STATE["dir"], _STATE["pid"] = d, pid
    atexit.register(shutil.rmtree, d, True)
    return d


def cleanup_children(parent_pid):
    import glob
    for d in glob.glob(f"{ROOT_PREFIX}{parent_pid}-*"):
        shutil.rmtree(d, ignore_errors=True)


# ---------------------------------------------------------------------------
# file specs

T0S = ["2020-02-03T04:05:06", "2016-12-31T23:59:50", "2021-06-30T12:00:00.5"]

KINDS = ["dada_complex", "sample_dada", "vdif_real", "guppi", "dada_stokes", "sample_vdif",
         "dada_multi", "vdif_complex", "sample_guppi", "sample_stokes", "dada_real"]


def gen_file_spec(tape, label="file", kinds=None):
    kinds = kinds or KINDS
    kind = kinds[tape.draw(len(kinds), f"{label}.kind")]
    spec = {"kind": kind}
    spec["omit_defaults"] = tape.chance(1, 3, f"{label}.omitdefaults")
    spec["lsb_form"] = ["bool_array", "bool_list", "int_list", "uint8_array", "int64_array"][
        tape.weighted([3, 1, 1, 1, 1], f"{label}.lsbform")]
    if kind.startswith("sample_"):
        if kind == "sample_vdif":
            spec["lsb"] = ["no", "all", "mask"][tape.draw(3, f"{label}.lsb")]
            spec["squeeze"] = not tape.chance(1, 4, f"{label}.nosqueeze")
        elif kind == "sample_dada":
            spec["lsb"] = ["no", "all", "mask"][tape.draw(3, f"{label}.lsb")]
            spec["sigtype"] = ["Signal", "DualPolarizationSignal"][tape.draw(2, f"{label}.sigtype")]
        elif kind == "sample_guppi":
            spec["nfiles"] = [4, 1, 2][tape.draw(3, f"{label}.nfiles")]
            spec["first"] = tape.draw(5 - spec["nfiles"], f"{label}.first")
        return spec
    spec["seed"] = tape.draw(1 << 12, f"{label}.seed")
    spec["t0"] = T0S[tape.draw(len(T0S), f"{label}.t0")]
    spec["spf"] = [16, 32, 8][tape.draw(3, f"{label}.spf")]
    spec["nframes"] = 1 + tape.draw(4, f"{label}.nframes")
    if kind == "dada_complex":
        spec["npol"] = [2, 1][tape.draw(2, f"{label}.npol")]
        spec["nchan"] = [1, 2, 4][tape.draw(3, f"{label}.nchan")]
        spec["lsb"] = ["no", "all", "mask"][tape.draw(3, f"{label}.lsb")]
        spec["sr_mhz"] = [16.0, 0.5, 2000.0][tape.draw(3, f"{label}.sr")]
        spec["sigtype"] = ["Signal", "BasebandSignal"][tape.draw(2, f"{label}.sigtype")]
    elif kind == "dada_multi":
        spec["npol"] = 2
        spec["nchan"] = 1
        spec["lsb"] = ["no", "all"][tape.draw(2, f"{label}.lsb")]
        spec["sr_mhz"] = 16.0
        spec["nframes"] = 2 + tape.draw(3, f"{label}.nframes2")
    elif kind == "dada_real":
        spec["npol"] = [2, 1][tape.draw(2, f"{label}.npol")]
        spec["nchan"] = 1
        spec["lsb"] = ["no", "all"][tape.draw(2, f"{label}.lsb")]
        spec["sr_mhz"] = 32.0
        spec["intensity"] = tape.chance(1, 3, f"{label}.intensity")
    elif kind == "dada_stokes":
        spec["nchan"] = [8, 4, 5][tape.draw(3, f"{label}.nchan")]
        spec["bw"] = [-2000.0, 2000.0, -16.0, 0.5][tape.draw(4, f"{label}.bw")]
        spec["sr_khz"] = [1.0, 7.62939453125][tape.draw(2, f"{label}.sr")]
    elif kind == "guppi":
        spec["nchan"] = [4, 2, 3][tape.draw(3, f"{label}.nchan")]
        spec["obsbw"] = [12.5, -12.5][tape.draw(2, f"{label}.obsbw")]
        spec["pol"] = ["LIN", "CIRC"][tape.draw(2, f"{label}.pol")]
        spec["frames_per_file"] = [1, 2][tape.draw(2, f"{label}.fpf")]
    elif kind in ("vdif_real", "vdif_complex"):
        spec["nthread"] = [4, 1, 2, 8][tape.draw(4, f"{label}.nthread")]
        spec["bps"] = [2, 8][tape.draw(2, f"{label}.bps")]
        spec["lsb"] = ["no", "all", "mask"][tape.draw(3, f"{label}.lsb")]
        spec["spf"] = 32
        spec["nframes"] = 4 + tape.draw(3, f"{label}.vframes")   # baseband needs >= 4 framesets
    return spec


READER_ONLY_KEYS = ("lsb", "lsb_form", "sigtype", "intensity", "squeeze", "omit_defaults")


def _hash(spec):
    """Content address of the FILE: reader options do not enter, so that two readers with
    different options can share one file (and one file name)."""
    content = {k: v for k, v in spec.items() if k not in READER_ONLY_KEYS}
    return hashlib.sha256(json.dumps(content, sort_keys=True).encode()).hexdigest()[:16]


def _mask(n, seed=0):
    return [bool((i + seed) % 3) for i in range(n)]


def synthesise(spec):
    """Write the file(s) for a synthesised spec (idempotent). Returns relative names."""
    import astropy.units as u
    from astropy.time import Time
    from baseband import dada, guppi, vdif
    workdir()
    d = "f_" + _hash(spec)
    marker = os.path.join(d, "DONE")
    if os.path.exists(marker):
        with open(marker) as f:
            return json.load(f)
    tmp = d + ".tmp%d" % os.getpid()
    shutil.rmtree(tmp, ignore_errors=True)
    os.makedirs(tmp)
    rng = np.random.default_rng(spec["seed"])
    t0 = Time(spec["t0"], precision=9)
    n = spec["spf"] * spec["nframes"]
    kind = spec["kind"]
    names = []

    def ints(shape):
        return rng.integers(-100, 100, size=shape)

    if kind in ("dada_complex", "dada_multi", "dada_real", "dada_stokes"):
        if kind == "dada_stokes":
            npol, nchan, cplx = 4, spec["nchan"], False
            sr = spec["sr_khz"] * u.kHz
            freq, bw = 7000.0, spec["bw"]
        else:
            npol, nchan = spec["npol"], spec["nchan"]
            cplx = kind != "dada_real"
            sr = spec["sr_mhz"] * u.MHz
            freq, bw = 320.0, spec["sr_mhz"]
        shape = (n, npol, nchan)
        data = ints(shape).astype(np.float32)
        if cplx:
            data = (data + 1j * ints(shape)).astype(np.complex64)
        h = dada.DADAHeader.fromvalues(time=t0, sample_rate=sr, samples_per_frame=spec["spf"],
                                       nchan=nchan, npol=npol, complex_data=cplx, bps=8,
                                       offset=0 * u.s)
        h["FREQ"] = freq
        h["BW"] = bw
        if kind == "dada_multi":
            tmpl = os.path.join(tmp, "m{frame_nr:d}.dada")
            with dada.open(tmpl, "ws", header0=h, squeeze=False) as fw:
                fw.write(data)
            names = [os.path.join(d, f"m{i}.dada") for i in range(spec["nframes"])]
        else:
            with dada.open(os.path.join(tmp, "a.dada"), "ws", header0=h, squeeze=False) as fw:
                fw.write(data)
            names = [os.path.join(d, "a.dada")]
    elif kind == "guppi":
        nchan = spec["nchan"]
        shape = (n, 2, nchan)
        data = (ints(shape) + 1j * ints(shape)).astype(np.complex64)
        h = guppi.GUPPIHeader.fromvalues(time=t0, sample_rate=3.125 * u.MHz,
                                         samples_per_frame=spec["spf"], nchan=nchan, npol=2, bps=8,
                                         complex_data=True, overlap=0,
                                         pktsize=spec["spf"] * nchan * 2 * 2,
                                         sideband=(spec["obsbw"] > 0))
        h["PKTSIZE"] = h.payload_nbytes       # one packet per frame
        h["OBSFREQ"] = 344.1875
        h["OBSBW"] = spec["obsbw"]
        h["FD_POLN"] = spec["pol"]
        fpf = spec["frames_per_file"]
        with guppi.open(os.path.join(tmp, "g{file_nr:d}.raw"), "ws", header0=h,
                        frames_per_file=fpf, squeeze=False) as fw:
            fw.write(data)
        nfiles = -(-spec["nframes"] // fpf)
        names = [os.path.join(d, f"g{i}.raw") for i in range(nfiles)]
    elif kind in ("vdif_real", "vdif_complex"):
        cplx = kind == "vdif_complex"
        nthread = spec["nthread"]
        nn = n * (1 if cplx else 2)       # real data: twice as many raw samples
        shape = (nn, nthread) if nthread > 1 else (nn,)
        data = rng.integers(-3, 4, size=shape).astype(np.float32)
        if cplx:
            data = (data + 1j * rng.integers(-3, 4, size=shape)).astype(np.complex64)
        with vdif.open(os.path.join(tmp, "v.vdif"), "ws", sample_rate=32 * u.MHz,
                       samples_per_frame=spec["spf"], nchan=1, nthread=nthread,
                       complex_data=cplx, bps=spec["bps"], edv=1, station="AB", time=t0) as fw:
            fw.write(data)
        names = [os.path.join(d, "v.vdif")]
    else:
        raise ValueError(kind)
    np.save(os.path.join(tmp, "written.npy"), data)
    with open(os.path.join(tmp, "DONE"), "w") as f:
        json.dump(names, f)
    try:
        os.rename(tmp, d)
    except OSError:
        shutil.rmtree(tmp, ignore_errors=True)   # another thread/process won the race
    return names


def reader_spec(spec):
    """How to open a pulsarbat reader on the file: {cls, name, kwargs(JSON-able)}."""
    rs = _reader_spec(spec)
    if rs["cls"] == "BasebandReader" and rs.get("lsb") == "mask":
        rs["lsb_form"] = spec.get("lsb_form", "bool_array")
    if rs["cls"] == "BasebandReader" and spec.get("omit_defaults"):
        rs["omit_defaults"] = True
    return rs


def _reader_spec(spec):
    kind = spec["kind"]
    if kind == "sample_dada":
        return {"cls": "BasebandReader", "name": "samples/sample.dada", "lsb": spec["lsb"],
                "sigtype": spec["sigtype"], "in_shape": [2]}
    if kind == "sample_vdif":
        return {"cls": "BasebandReader", "name": "samples/sample.vdif", "lsb": spec["lsb"],
                "sigtype": "Signal", "squeeze": spec["squeeze"],
                "in_shape": [8] if spec["squeeze"] else [8, 1]}
    if kind == "sample_guppi":
        fs = [f"samples/fake.{i}.raw" for i in range(spec["first"], spec["first"] + spec["nfiles"])]
        return {"cls": "GUPPIRawReader", "name": fs if len(fs) > 1 else fs[0]}
    if kind == "sample_stokes":
        return {"cls": "DADAStokesReader", "name": "samples/stokes_ef.dada"}
    names = synthesise(spec)
    if kind == "dada_stokes":
        return {"cls": "DADAStokesReader", "name": names[0]}
    if kind == "guppi":
        return {"cls": "GUPPIRawReader", "name": names if len(names) > 1 else names[0]}
    if kind in ("dada_complex", "dada_multi", "dada_real"):
        in_shape = [spec["npol"], spec["nchan"]]
        in_shape = [s for s in in_shape if s != 1]       # baseband squeezes by default
        r = {"cls": "BasebandReader", "name": names if len(names) > 1 else names[0],
             "lsb": spec["lsb"], "sigtype": spec.get("sigtype", "Signal"), "in_shape": in_shape}
        if kind == "dada_multi":
            r["open_kwargs"] = {"format": "dada"}
        if spec.get("intensity"):
            r["intensity"] = True
            r["lsb"] = "no"
        if r["sigtype"] == "BasebandSignal" and len(in_shape) == 0:
            r["sigtype"] = "Signal"
        return r
    if kind in ("vdif_real", "vdif_complex"):
        in_shape = [spec["nthread"]] if spec["nthread"] > 1 else []
        return {"cls": "BasebandReader", "name": names[0], "lsb": spec["lsb"], "sigtype": "Signal",
                "in_shape": in_shape}
    raise ValueError(kind)


def lsb_value(rs, as_given=False):
    """The lower_sideband flags as a boolean array (model) or, with as_given, in the form
    the client passes them: bool ndarray, list of bools, list of 0/1 ints, uint8/int64 array
    (the documented type is 'bool or array-like of booleans'; the reader coerces)."""
    lsb = rs.get("lsb", "no")
    if lsb == "no":
        return False
    if lsb == "all":
        return True
    shp = tuple(rs["in_shape"])
    if not shp:
        return True
    m = np.array(_mask(int(np.prod(shp)))).reshape(shp)
    if not as_given:
        return m
    form = rs.get("lsb_form", "bool_array")
    if form == "bool_list":
        return m.tolist()
    if form == "int_list":
        return m.astype(int).tolist()
    if form == "uint8_array":
        return m.astype(np.uint8)
    if form == "int64_array":
        return m.astype(np.int64)
    return m


def open_reader(pb, rs, owned=None):
    """Construct the pulsarbat reader described by rs. If `owned` is a dict, the
    caller-owned constructor arguments (name list, sideband flags, signal_kwargs dict) are
    stored in it so that a check can watch them."""
    import astropy.units as u
    name = rs["name"]
    if isinstance(name, list):
        name = list(name)
    if owned is not None:
        owned["name"] = name
    if rs["cls"] == "GUPPIRawReader":
        return pb.readers.GUPPIRawReader(name)
    if rs["cls"] == "DADAStokesReader":
        return pb.readers.DADAStokesReader(name)
    kw = dict(rs.get("open_kwargs", {}))
    if "squeeze" in rs:
        kw["squeeze"] = rs["squeeze"]
    st = getattr(pb, rs.get("sigtype", "Signal"))
    skw = {}
    if rs.get("sigtype") == "BasebandSignal":
        skw = {"center_freq": 320 * u.MHz, "freq_align": "center"}
    if rs.get("sigtype") == "DualPolarizationSignal":
        # (time, pol) -> needs a channel axis; not constructible from sample.dada as is
        st = pb.Signal
    if rs.get("intensity"):
        kw["intensity"] = True
    lsb = lsb_value(rs, as_given=True)
    if owned is not None:
        owned["lower_sideband"] = lsb
        owned["signal_kwargs"] = skw
    if lsb is False and rs.get("omit_defaults"):
        # rely on the documented defaults (lower_sideband=False, signal_type=Signal)
        if st is pb.Signal and not skw:
            return pb.readers.BasebandReader(name, **kw)
        return pb.readers.BasebandReader(name, signal_type=st, signal_kwargs=skw, **kw)
    return pb.readers.BasebandReader(name, signal_type=st, signal_kwargs=skw,
                                     lower_sideband=lsb, **kw)


# ---------------------------------------------------------------------------
# reference model

def analytic_reference(raw):
    """Independent evaluation of the documented real->complex conversion on
    raw[0:2n] (axis 0): analytic signal via one-sided spectrum, shift by -B/2,
    decimate by 2. O(N^2) DFT in long double."""
    x = np.asarray(raw, dtype=np.longdouble)
    N = x.shape[0]
    if N == 0:
        return np.zeros((0,) + x.shape[1:], np.complex64)
    k = np.arange(N, dtype=np.longdouble)
    W = np.exp((-2j * np.pi / N) * np.outer(k, k).astype(np.longdouble))
    X = np.tensordot(W, x, axes=(1, 0))
    h = np.zeros(N, dtype=np.longdouble)
    h[0] = 1
    h[1:N // 2] = 2
    if N > 1:
        h[N // 2] = 2 if N % 2 else 1
    X = X * h.reshape((N,) + (1,) * (x.ndim - 1))
    a = np.tensordot(np.conj(W), X, axes=(1, 0)) / N
    a = a * np.exp(-1j * np.pi / 2 * k).reshape((N,) + (1,) * (x.ndim - 1))
    return a[::2]


class Model:
    """What the reader must return, derived from a direct baseband read and the
    documented mapping (axis order, sideband conjugation / channel flip, header
    metadata) -- written independently of the reader code."""

    def __init__(self, pb, rs):
        import astropy.units as u
        from astropy.time import Time
        import baseband
        self.rs = rs
        cls = rs["cls"]
        kw = {}
        if cls == "GUPPIRawReader":
            kw = {"format": "guppi", "squeeze": False}
        elif cls == "DADAStokesReader":
            kw = {"format": "dada", "squeeze": False}
        else:
            kw = dict(rs.get("open_kwargs", {}))
            if "squeeze" in rs:
                kw["squeeze"] = rs["squeeze"]
        with baseband.open(rs["name"], "rs", **kw) as fh:
            raw = fh.read()
            self.raw_sr = fh.sample_rate
            self.t0 = Time(fh.start_time, format="isot", precision=9)
            hdr = fh.header0
            cplx = bool(fh.complex_data)
        self.expect = {}
        self.hilbert = False
        self.sigtype = "Signal"
        if cls == "GUPPIRawReader":
            M = raw                                # (time, pol, chan)
            if float(hdr["OBSBW"]) < 0:
                # lower sideband: spectrum of each channel inverted (-> conjugate) AND channels
                # stored in descending frequency, f_k = OBSFREQ - OBSBW/2 + (k + 1/2) CHAN_BW
                # with CHAN_BW < 0 (-> reverse, since a RadioSignal labels channels ascending)
                M = M.conj()[:, :, ::-1]
            M = M.transpose(0, 2, 1)              # -> (time, chan, pol)
            self.sr = self.raw_sr
            self.sigtype = "DualPolarizationSignal"
            self.expect = {"center_freq": float(hdr["OBSFREQ"]) * u.MHz, "freq_align": "center",
                           "pol_type": {"LIN": "linear", "CIRC": "circular"}[hdr["FD_POLN"]]}
        elif cls == "DADAStokesReader":
            M = raw                                # (time, pol=4, chan)
            lsb = float(hdr["BW"]) < 0
            if lsb:
                M = M[:, :, ::-1]
            M = M.transpose(0, 2, 1)
            self.sr = self.raw_sr
            self.sigtype = "FullStokesSignal"
            self.expect = {"center_freq": float(hdr["FREQ"]) * u.MHz,
                           "chan_bw": abs(float(hdr["BW"]) / int(hdr["NCHAN"])) * u.MHz,
                           "freq_align": "top" if lsb else "bottom"}
            if int(hdr["NCHAN"]) % 2:
                self.expect["freq_align"] = "center"     # documented: odd nchan is always centred
        else:
            lsb = lsb_value(rs)
            intensity = bool(rs.get("intensity"))
            if not cplx and not intensity:
                self.hilbert = True
                self.raw = raw
                self.sr = self.raw_sr / 2
                M = None
                self.length = raw.shape[0] // 2
            else:
                M = raw
                self.sr = self.raw_sr
                if not intensity:
                    if lsb is True:
                        M = M.conj()
                    elif lsb is not False:
                        M = M.copy()
                        M[:, lsb] = M[:, lsb].conj()
            self.lsb = lsb
            self.sigtype = rs.get("sigtype", "Signal")
            if self.sigtype == "DualPolarizationSignal":
                self.sigtype = "Signal"
            if self.sigtype == "BasebandSignal":
                self.expect = {"center_freq": 320 * u.MHz, "freq_align": "center"}
        if M is not None:
            self.M = np.ascontiguousarray(M)
            self.length = self.M.shape[0]
            self.dtype = np.dtype(np.complex64 if self.M.dtype.kind == "c" else np.float32)
            self.sample_shape = self.M.shape[1:]
        else:
            self.M = None
            self.dtype = np.dtype(np.complex64)
            self.sample_shape = self.raw.shape[1:]

    def expected(self, o, n):
        """(array, tolerance) for read(o, n)."""
        if not self.hilbert:
            return self.M[o:o + n].astype(self.dtype, copy=False), 0.0
        seg = self.raw[2 * o:2 * o + 2 * n]
        ref = analytic_reference(seg)
        lsb = self.lsb
        if lsb is True:
            ref = ref.conj()
        elif lsb is not False:
            ref = ref.copy()
            ref[:, lsb] = ref[:, lsb].conj()
        scale = float(np.max(np.abs(seg))) if seg.size else 0.0
        tol = 64 * np.finfo(np.float32).eps * max(scale, 1e-30) * max(1.0, np.log2(max(2 * n, 2)))
        return ref.astype(np.complex128), tol
