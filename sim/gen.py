"""Tape-driven generation of signals (specs are plain JSON-able dicts).

A spec describes a signal completely; build_numpy() materialises the NumPy-backed
object. 0 on the tape is always the simplest choice.
"""

import numpy as np

CLASSES = ["BasebandSignal", "DualPolarizationSignal", "Signal", "RadioSignal",
           "IntensitySignal", "FullStokesSignal"]

DTYPES = {
    "Signal": ["float64", "complex64", "float32", "complex128", "int16", "uint8", "int32"],
    "RadioSignal": ["float32", "complex128", "float64", "complex64", "int16"],
    "IntensitySignal": ["float32", "float64"],
    "FullStokesSignal": ["float32", "float64"],
    "BasebandSignal": ["complex64", "complex128"],
    "DualPolarizationSignal": ["complex64", "complex128"],
}

# (value, unit-name)
SAMPLE_RATES = [(1.0, "MHz"), (250.0, "kHz"), (4.0, "Hz"), (32.0, "MHz"),
                (1.0, "Hz"), (1e6 / 3, "Hz"), (0.5, "MHz")]
START_TIMES = [None, "2021-03-04T05:06:07.000000000", "2019-12-31T23:59:59.123456789",
               "2016-12-31T23:59:58.500000000"]
# the last two put the band across (or next to) 0 Hz, as for a signal already mixed to baseband
CENTER_FREQS = [(400.0, "MHz"), (1.4, "GHz"), (800.0, "MHz"), (327.5, "MHz"), (0.0, "MHz"),
                (1.5, "MHz")]
LAYOUTS = ["C", "F", "strided", "reversed", "chanstrided"]


def gen_signal_spec(tape, classes=None, maxlen=64, layouts=True, label="sig", big=False):
    classes = classes or CLASSES
    cls = tape.choice(classes, f"{label}.cls")
    sizes = [16, 8, 12, 24, 32, 5, 7, 48, 64, 96, 1, 2, 3]
    if big:
        sizes = sizes + [128, 100, 192, 144, 101]
    n = sizes[tape.draw(len(sizes), f"{label}.n")]
    n = min(n, maxlen)
    shape = [n]
    if cls != "Signal":
        chans = [4, 1, 2, 3, 8, 6] + ([16, 12, 9] if big else [])
        shape.append(chans[tape.draw(len(chans), f"{label}.nchan")])
    elif tape.chance(1, 2, f"{label}.sig2d"):
        shape.append(tape.rint(1, 3, f"{label}.d1"))
    if cls == "FullStokesSignal":
        shape.append(4)
    elif cls == "DualPolarizationSignal":
        shape.append(2)
    ntrail = tape.weighted([6, 2, 1], f"{label}.ntrail")
    if cls == "Signal" and len(shape) == 1:
        ntrail = 0
    for i in range(ntrail):
        shape.append(tape.rint(1, 3, f"{label}.trail{i}"))
    dtype = tape.choice(DTYPES[cls], f"{label}.dtype")
    sr = SAMPLE_RATES[tape.draw(len(SAMPLE_RATES), f"{label}.sr")]
    start = START_TIMES[tape.draw(len(START_TIMES), f"{label}.start")]
    spec = {"cls": cls, "shape": shape, "dtype": dtype, "sr": list(sr),
            "start": start, "data_seed": tape.draw(1 << 16, f"{label}.dseed")}
    if cls != "Signal":
        spec["cf"] = list(CENTER_FREQS[tape.draw(len(CENTER_FREQS), f"{label}.cf")])
        spec["align"] = ["center", "bottom", "top"][tape.draw(3, f"{label}.align")]
        if cls in ("RadioSignal", "IntensitySignal", "FullStokesSignal"):
            spec["cbw"] = list(SAMPLE_RATES[tape.draw(len(SAMPLE_RATES), f"{label}.cbw")])
    if cls == "DualPolarizationSignal":
        spec["pol"] = ["linear", "circular"][tape.draw(2, f"{label}.pol")]
    mk = tape.weighted([3, 2, 2], f"{label}.meta")
    spec["meta"] = [None, {"name": "x"}, {"a": {"b": [1, 2, 3]}, "k": [4.5]}][mk]
    spec["layout"] = LAYOUTS[tape.draw(len(LAYOUTS), f"{label}.layout")] if layouts else "C"
    return spec


def make_values(shape, dtype, data_seed):
    rng = np.random.default_rng(data_seed)
    dt = np.dtype(dtype)
    if dt.kind == "c":
        x = rng.standard_normal(shape) + 1j * rng.standard_normal(shape)
    elif dt.kind == "f":
        x = rng.standard_normal(shape)
    else:
        x = rng.integers(0 if dt.kind == "u" else -100, 100, size=shape)
    return np.ascontiguousarray(x.astype(dt))


def lay_out(values, layout):
    """Return (view, owner): `view` has the given values, `owner` is the writable
    base buffer that owns the memory (may be larger than the view)."""
    if layout == "C":
        owner = values.copy(order="C")
        return owner, owner
    if layout == "F":
        owner = np.asfortranarray(values).copy(order="F")
        return owner, owner
    if layout == "strided":
        shp = (values.shape[0] * 2 + 1,) + values.shape[1:]
        owner = np.full(shp, 7, dtype=values.dtype)
        view = owner[1::2]
        view[...] = values
        return view, owner
    if layout == "reversed":
        owner = values[::-1].copy()
        return owner[::-1], owner
    if layout == "chanstrided":
        if values.ndim < 2:
            owner = values.copy()
            return owner, owner
        shp = (values.shape[0], values.shape[1] * 3) + values.shape[2:]
        owner = np.full(shp, 3, dtype=values.dtype)
        view = owner[:, 1::3]
        view[...] = values
        return view, owner
    raise ValueError(layout)


def quantity(u, pair):
    return pair[0] * getattr(u, pair[1])


def signal_kwargs(spec):
    import astropy.units as u
    from astropy.time import Time
    import copy

    kw = {"sample_rate": quantity(u, spec["sr"])}
    if spec.get("start") is not None:
        kw["start_time"] = Time(spec["start"], format="isot", scale="utc", precision=9)
    if "cf" in spec:
        kw["center_freq"] = quantity(u, spec["cf"])
        kw["freq_align"] = spec["align"]
    if "cbw" in spec:
        kw["chan_bw"] = quantity(u, spec["cbw"])
    if "pol" in spec:
        kw["pol_type"] = spec["pol"]
    if spec.get("meta") is not None:
        kw["meta"] = copy.deepcopy(spec["meta"])
    return kw


def build_numpy(pb, spec):
    """Return (signal, owner_buffer)."""
    values = make_values(tuple(spec["shape"]), spec["dtype"], spec["data_seed"])
    view, owner = lay_out(values, spec.get("layout", "C"))
    z = getattr(pb, spec["cls"])(view, **signal_kwargs(spec))
    return z, owner


def gen_chunks(tape, shape, time_chunked=False, label="chunks"):
    """Chunk layout: any composition of each sample axis; the time axis is one
    chunk unless time_chunked."""
    chunks = []
    for ax, n in enumerate(shape):
        if ax == 0 and not time_chunked:
            chunks.append((n,))
        else:
            chunks.append(tape.composition(n, f"{label}.ax{ax}", maxparts=4))
    return tuple(chunks)
