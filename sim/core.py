"""Run context: event log, digest, probes, fault counters, violations."""

import hashlib
import os
import sys
import warnings
from collections import Counter

# --- process-wide determinism settings (must precede numpy import) -----------
for _v in ("OMP_NUM_THREADS", "OPENBLAS_NUM_THREADS", "MKL_NUM_THREADS",
           "NUMEXPR_NUM_THREADS"):
    os.environ.setdefault(_v, "1")

REPO = os.environ.get("PB_REPO", "/repo")
VERIF = os.path.dirname(os.path.dirname(os.path.abspath(__file__)))


def setup_imports():
    """Make `import pulsarbat` resolve to $PB_REPO (default /repo): the current
    working tree, never an installed copy."""
    if sys.path[0] != REPO:
        sys.path.insert(0, REPO)
    warnings.filterwarnings("ignore")
    import pulsarbat  # noqa

    got = os.path.dirname(os.path.dirname(os.path.abspath(pulsarbat.__file__)))
    if os.path.realpath(got) != os.path.realpath(REPO):
        raise RuntimeError(f"pulsarbat imported from {got}, wanted {REPO}")
    from astropy.utils import iers

    iers.conf.auto_download = False
    iers.conf.auto_max_age = None
    return pulsarbat


_UUID = {"n": 0, "installed": False}


def _install_uuid():
    """Dask names some tasks with uuid4() (finalize tasks of a compute, impure delayed,
    non-tokenizable objects). Key strings break ties in Dask's task order, so the
    simulation process replaces uuid4/uuid1 by a counter that is reset at the start
    of every run."""
    import uuid
    if _UUID["installed"]:
        return

    def fake(*a, **kw):
        _UUID["n"] += 1
        return uuid.UUID(int=(0x5eed << 96) | _UUID["n"])

    uuid.uuid4 = fake
    uuid.uuid1 = fake
    _UUID["installed"] = True


def reset_run_state():
    """Forget everything a previous run in this process may have left behind."""
    pb = setup_imports()
    _install_uuid()
    _UUID["n"] = 0
    clear_library_caches(pb)
    return pb


_CACHE_CLEARERS = []


def clear_library_caches(pb):
    """Every functools cache found in the library (module level or on classes): memoised
    state must not travel from one run, or one injected execution, to the next."""
    if not _CACHE_CLEARERS:
        found = []
        for name, mod in list(sys.modules.items()):
            if not name.startswith("pulsarbat") or mod is None:
                continue
            for v in list(vars(mod).values()):
                cc = getattr(v, "cache_clear", None)
                if callable(cc):
                    found.append(cc)
                elif isinstance(v, type) and getattr(v, "__module__", "").startswith("pulsarbat"):
                    for w in list(vars(v).values()):
                        w = getattr(w, "__func__", w)
                        cc = getattr(w, "cache_clear", None)
                        if callable(cc):
                            found.append(cc)
        _CACHE_CLEARERS.append(found)
    for cc in _CACHE_CLEARERS[0]:
        cc()


class Violation(Exception):
    """Raised by an oracle; ends the run."""

    def __init__(self, kind, site, detail="", tags=None):
        super().__init__(f"{kind} @ {site}: {detail}")
        self.kind = kind
        self.site = site
        self.detail = detail
        self.tags = tags or {}

    def key(self):
        return (self.kind, self.site)

    def as_dict(self):
        return {"kind": self.kind, "site": self.site, "detail": self.detail, "tags": self.tags}


class Discard(Exception):
    """The tape led to a case the generator cannot build; not a verdict."""


class Ctx:
    def __init__(self, tape, prop, scenario, tier="quick", keep_events=True):
        self.tape = tape
        self.prop = prop
        self.scenario = scenario
        self.tier = tier
        self.events = []
        self.keep_events = keep_events
        self._h = hashlib.sha256()
        self._sh = hashlib.sha256()     # scheduling-decision subsequence
        self.nsched = 0                  # scheduling decisions taken
        self.ndeviate = 0                # ... that differ from the default (0)
        self.steps = 0                   # logical steps (scheduler decisions + ops)
        self.probes = Counter()
        self.faults = Counter()
        self.counts = Counter()
        self.sample = None               # human-readable description of the case
        self.nontrivial = False
        self.trace = []                  # human-readable trace (for replay files)
        self.sched_trace = []            # context switches / completion picks (not in the digest)

    # -- logging (never draws, never reads a clock) -----------------------
    def log(self, *fields):
        s = "|".join(str(f) for f in fields)
        self._h.update(s.encode())
        self._h.update(b"\n")
        if self.keep_events:
            self.events.append(s)

    def note(self, s):
        """Human-readable trace line (also part of the digest)."""
        self.log("note", s)
        if len(self.trace) < 400:
            self.trace.append(s)

    def switch_note(self, text):
        if len(self.sched_trace) < 5000:
            self.sched_trace.append(text)

    def sched(self, label, value):
        self.nsched += 1
        self.steps += 1
        if value:
            self.ndeviate += 1
        self._sh.update(f"{label}:{value};".encode())

    def probe(self, name, k=1):
        self.probes[name] += k

    def fault(self, kind, k=1):
        self.faults[kind] += k

    def violate(self, kind, site, detail="", tags=None):
        self.log("VIOLATION", kind, site)
        raise Violation(kind, site, detail, tags)

    def digest(self):
        return self._h.hexdigest()

    def sched_digest(self):
        return self._sh.hexdigest()[:16]


def hbytes(b):
    return hashlib.sha256(b).hexdigest()[:12]
