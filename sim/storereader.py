"""Harness reader for BaseReader itself (import only after core.setup_imports())."""

import numpy as np
import pulsarbat as pb

from .storevals import store_values

CUR = {"sched": None}


class SimStoreReader(pb.readers.BaseReader):
    """`_read_array` (the documented extension point) reads a virtual in-memory store
    block by block, yielding to the simulated scheduler between blocks."""
    BLOCK = 16

    def _read_array(self, offset, n, /):      # exactly the documented hook signature
        out = np.empty((n,) + self.sample_shape, self.dtype)
        s = CUR["sched"]
        for b0 in range(0, n, self.BLOCK):
            if s is not None:
                s.yield_point(("store", "block"))
            b1 = min(b0 + self.BLOCK, n)
            out[b0:b1] = store_values(offset + b0, b1 - b0, self.sample_shape, self.dtype)
        return out

    def __dask_tokenize__(self):
        # private attributes only: Dask holds its global tokenize lock here, so no
        # pre-emption point (pulsarbat property) may be reached inside
        st = self._start_time
        return ("SimStoreReader", self._shape, str(self._dtype), str(self._sample_rate),
                None if st is None else (float(st.jd1), float(st.jd2)))
