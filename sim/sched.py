"""Baton-passing scheduler for simulated caller threads.

Real Python threads, exactly one running at any instant; every other thread is
parked on its own Event. The running thread reaches a *yield point* (a line event
of sys.settrace in selected pulsarbat files, or a call through the I/O seam) and
there the tape decides: continue, or hand the baton to another runnable thread.
Who runs is therefore a pure function of the tape; OS scheduling never matters.
"""

import os
import sys
import threading

from . import core
from .inject import SimInterrupt


class Deadlock(Exception):
    pass


class Abandon(BaseException):
    """Raised inside a parked simulated thread when its run is over, so that it unwinds
    (releasing whatever it holds) instead of staying parked for the life of the process."""


class SimThread:
    def __init__(self, sched, name, fn):
        self.sched = sched
        self.name = name
        self.fn = fn
        self.ev = threading.Event()
        self.done = False
        self.blocked_on = None       # a SimLock
        self.exc = None
        self.steps = 0
        self.stall = 0               # not schedulable for this many decisions
        self.kill_at = -1            # inject SimInterrupt at this line event of this thread
        self.lines = 0
        self.current_call = None     # bookkeeping for the oracles
        self.thread = threading.Thread(target=self._main, name=name, daemon=True)

    def _main(self):
        self.ev.wait()
        self.ev.clear()
        try:
            if self.sched.abort:
                raise Abandon()
            self.fn(self)
        except BaseException as e:  # noqa
            self.exc = e
        finally:
            self.done = True
            self.sched._thread_finished(self)


class SimLock:
    """A lock handed to the library by the simulated CLIENT (the `lock=` argument). It has
    the full threading.Lock interface (acquire/release/locked and the context-manager
    protocol); a simulated thread that finds it taken parks under scheduler control."""

    def __init__(self, sched, name="lock"):
        self.sched = sched
        self.name = name
        self.owner = None
        self.acquisitions = 0

    def acquire(self, blocking=True, timeout=-1):
        s = self.sched
        t = s.current
        if t is None or threading.current_thread() is not t.thread:
            raise RuntimeError("SimLock used outside a simulated thread")
        s.yield_point(f"lock.acquire:{self.name}")
        while self.owner is not None:
            if not blocking:
                return False
            s.ctx.probe("lock_contended")
            t.blocked_on = self
            s.switch_away(f"lock.wait:{self.name}")
        self.owner = t
        self.acquisitions += 1
        return True

    def release(self):
        self.owner = None
        for t in self.sched.threads:
            if t.blocked_on is self:
                t.blocked_on = None
        self.sched.yield_point(f"lock.release:{self.name}")

    def locked(self):
        return self.owner is not None

    def __enter__(self):
        self.acquire()
        return self

    def __exit__(self, *exc):
        self.release()
        return False


ACTIVE = {"sched": None}
_LOCKS_INSTALLED = {}


class SimAwareLock:
    """Stands in for threading.Lock / RLock objects CREATED BY pulsarbat code (see
    install_lock_seam): a simulated thread that finds it taken parks under scheduler
    control instead of blocking the process; any other thread gets the real behaviour."""

    def __init__(self, real, package=None):
        self._real = real
        self._package = package      # lock living inside a dependency: only relevant when that
                                     # dependency's code is being pre-empted

    def acquire(self, blocking=True, timeout=-1):
        s = ACTIVE["sched"]
        t = s.current if s is not None else None
        if s is None or t is None or threading.current_thread() is not t.thread \
                or (self._package is not None and self._package not in s.packages):
            return self._real.acquire(blocking, timeout)
        s.yield_point(("lock", "acquire"))
        while not self._real.acquire(False):
            if not blocking:
                return False
            s.ctx.probe("library_lock_contended")
            t.blocked_on = self
            s.switch_away(("lock", "wait"))
        return True

    def release(self):
        self._real.release()
        s = ACTIVE["sched"]
        if s is not None:
            for t in s.threads:
                if t.blocked_on is self:
                    t.blocked_on = None

    def locked(self):
        return self._real.locked()

    __enter__ = acquire

    def __exit__(self, *exc):
        self.release()
        return False


def install_lock_seam():
    """threading.Lock()/RLock() called from a pulsarbat source file return a
    SimAwareLock; every other caller (threading internals, Dask, this harness) gets
    the real thing."""
    if _LOCKS_INSTALLED.get("done"):
        return
    root = os.path.join(os.path.realpath(core.REPO), "pulsarbat") + os.sep
    real_lock, real_rlock = threading.Lock, threading.RLock

    def from_library():
        f = sys._getframe(2)
        fn = f.f_code.co_filename
        return (not fn.startswith("<")) and os.path.realpath(fn).startswith(root)

    def lock_factory(*a, **kw):
        if from_library():
            return SimAwareLock(real_lock())
        return real_lock(*a, **kw)

    def rlock_factory(*a, **kw):
        if from_library():
            return SimAwareLock(real_rlock())
        return real_rlock(*a, **kw)

    threading.Lock, threading.RLock = lock_factory, rlock_factory
    # Dask tokenizes under a process-wide RLock and may call back into library code
    # (__getstate__, __dask_tokenize__) while holding it
    try:
        import dask.tokenize as dtok
        if not isinstance(dtok.tokenize_lock, SimAwareLock):
            dtok.tokenize_lock = SimAwareLock(dtok.tokenize_lock)
    except Exception:
        pass
    _LOCKS_INSTALLED["done"] = True


_AWARE_PKGS = set()


def make_package_locks_aware(package):
    """Locks that live inside a dependency whose code is pre-empted must be scheduler-aware
    too: astropy's `lazyproperty` guards every getter with a per-descriptor RLock, and a
    simulated thread parked inside such a getter would block the others for ever."""
    if package in _AWARE_PKGS:
        return
    _AWARE_PKGS.add(package)
    try:
        from astropy.utils.decorators import lazyproperty
    except Exception:
        return
    for name, m in list(sys.modules.items()):
        if not (name == package or name.startswith(package + ".")) or m is None:
            continue
        for v in list(vars(m).values()):
            if isinstance(v, type):
                for w in list(vars(v).values()):
                    if isinstance(w, lazyproperty) and not isinstance(getattr(w, "_lock", None), SimAwareLock) \
                            and getattr(w, "_lock", None) is not None:
                        w._lock = SimAwareLock(w._lock, package)


class Sched:
    def __init__(self, ctx, switch_eighths=1, trace_files=("readers", "utils.py"), max_steps=200000,
                 tool_id=4, step_mode=False, packages=()):
        self.ctx = ctx
        self.tape = ctx.tape
        self.switch = switch_eighths
        self.threads = []
        self.current = None
        self.main_ev = threading.Event()
        self.max_steps = max_steps
        self.nsteps = 0
        self.error = None
        from . import linemon
        install_lock_seam()
        for pkg in packages:
            make_package_locks_aware(pkg)
        self.mon = linemon.get_monitor("sched-" + "+".join(trace_files) + "+" + "+".join(packages),
                                       tool_id, tuple(trace_files), tuple(packages))
        self.packages = tuple(packages)
        self.step_mode = step_mode      # hand control back to the driver whenever a thread finishes
        self.started = False
        self.switches = 0
        self.last_site = None
        self.abort = False

    # -- pre-emption at line events (sys.monitoring, see linemon.py) -------------------
    def _on_line(self, code, line):
        t = self.current
        if t is None or threading.current_thread() is not t.thread:
            return
        k = t.lines
        t.lines = k + 1
        if k == t.kill_at:
            self.ctx.fault("kill_caller")
            self.ctx.note(f"{t.name}: SimInterrupt injected at {os.path.basename(code.co_filename)}:"
                          f"{line} ({code.co_name})")
            t.killed_in_call = t.current_call
            raise SimInterrupt("injected kill of caller")
        self.yield_point((code.co_name, line))

    # -- scheduling ---------------------------------------------------------------
    def spawn(self, name, fn):
        t = SimThread(self, name, fn)
        self.threads.append(t)
        return t

    def _runnable(self, exclude=None):
        return [t for t in self.threads
                if not t.done and t.blocked_on is None and t is not exclude]

    def yield_point(self, site):
        """Called by the running simulated thread. May switch to another thread."""
        t = self.current
        if t is None or threading.current_thread() is not t.thread:
            return      # not under simulation (e.g. setup code in the main thread)
        self.nsteps += 1
        t.steps += 1
        self.last_site = site
        if self.nsteps > self.max_steps:
            raise RuntimeError("step budget exceeded")
        others = self._runnable(exclude=t)
        if not others:
            self.ctx.steps += 1
            return
        if self.switch and self.tape.chance(self.switch, 8, "sched.switch"):
            for o in others:
                if o.stall > 0:
                    o.stall -= 1
            cand = [o for o in others if o.stall == 0] or others
            i = self.tape.draw(len(cand), "sched.pick")
            self.ctx.sched("switch", 1 + i)
            self._handoff(t, cand[i], site)
        else:
            self.ctx.sched("switch", 0)

    def switch_away(self, site):
        """Current thread cannot continue (blocked): must hand the baton over."""
        t = self.current
        others = self._runnable(exclude=t)
        if not others:
            self.error = Deadlock(f"all threads blocked at {site}")
            self.main_ev.set()
            # park; the main thread reports the deadlock and then abandons the run
            t.ev.wait()
            raise Abandon()
        i = self.tape.draw(len(others), "sched.pick_blocked")
        self.ctx.sched("switch_blocked", 1 + i)
        self._handoff(t, others[i], site)

    def _handoff(self, frm, to, site):
        self.switches += 1
        self.ctx.switch_note(f"{self.nsteps}: {frm.name} -> {to.name} at {site}")
        self.current = to
        to.ev.set()
        frm.ev.wait()
        frm.ev.clear()
        if self.abort:
            raise Abandon()

    def _thread_finished(self, t):
        if self.abort:
            return
        if self.step_mode:
            self.current = None
            self.main_ev.set()
            return
        nxt = self._runnable()
        if nxt:
            i = self.tape.draw(len(nxt), "sched.pick_after_exit") if len(nxt) > 1 else 0
            self.current = nxt[i]
            nxt[i].ev.set()
        else:
            if any((not x.done) for x in self.threads):
                self.error = Deadlock("threads remain but none is runnable")
            self.current = None
            self.main_ev.set()

    # -- step mode: a driver (Engine A) resumes one thread at a time ------------------
    def start(self):
        self.mon.callback = self._on_line
        ACTIVE["sched"] = self
        self.started = True

    def spawn_started(self, name, fn):
        t = self.spawn(name, fn)
        t.thread.start()
        return t

    def resume(self, t, wall_timeout=int(os.environ.get("VERIF_SCHED_TIMEOUT", "120"))):
        """Let `t` run (it may hand the baton to other live threads) until some thread
        finishes; then control is back with the driver."""
        self.main_ev.clear()
        self.current = t
        t.ev.set()
        if not self.main_ev.wait(wall_timeout):
            raise RuntimeError(f"simulated task threads hung (wall timeout); last site {self.last_site}")
        if self.error is not None:
            raise self.error

    def finish(self):
        """Abandon whatever is still parked and uninstall."""
        self.abort = True
        self.current = None
        for t in self.threads:
            if not t.done and t.thread.is_alive():
                t.ev.set()
        for t in self.threads:
            if t.thread.is_alive():
                t.thread.join(5)
        self.mon.callback = None
        if ACTIVE["sched"] is self:
            ACTIVE["sched"] = None

    def run(self, wall_timeout=int(os.environ.get("VERIF_SCHED_TIMEOUT", "120"))):
        """Run all spawned threads to completion under the tape's schedule."""
        if not self.threads:
            return
        self.mon.callback = self._on_line
        ACTIVE["sched"] = self
        for t in self.threads:
            t.thread.start()
        first = self.tape.draw(len(self.threads), "sched.first") if len(self.threads) > 1 else 0
        self.current = self.threads[first]
        self.current.ev.set()
        try:
            if not self.main_ev.wait(wall_timeout):
                raise RuntimeError(f"simulated threads hung (wall timeout); last site {self.last_site}")
        finally:
            # nobody stays parked: wake every unfinished thread so that it unwinds
            self.abort = True
            self.current = None
            for t in self.threads:
                if not t.done:
                    t.ev.set()
            for t in self.threads:
                t.thread.join(5)
            self.mon.callback = None
            ACTIVE["sched"] = None
        if self.error is not None:
            raise self.error
        for t in self.threads:
            t.thread.join(5)
