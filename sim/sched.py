"""Baton-passing scheduler for simulated caller threads.

Real Python threads, exactly one running at any instant; every other thread is
parked on its own Event. The running thread reaches a *yield point* (a line event
of sys.settrace in selected pulsarbat files, or a call through the I/O seam) and
there the tape decides: continue, or hand the baton to another runnable thread.
Who runs is therefore a pure function of the tape; OS scheduling never matters.
"""

import os
import sys
import threading

from . import core
from .inject import SimInterrupt


class Deadlock(Exception):
    pass


class SimThread:
    def __init__(self, sched, name, fn):
        self.sched = sched
        self.name = name
        self.fn = fn
        self.ev = threading.Event()
        self.done = False
        self.blocked_on = None       # a SimLock
        self.exc = None
        self.steps = 0
        self.stall = 0               # not schedulable for this many decisions
        self.kill_at = -1            # inject SimInterrupt at this line event of this thread
        self.lines = 0
        self.current_call = None     # bookkeeping for the oracles
        self.thread = threading.Thread(target=self._main, name=name, daemon=True)

    def _main(self):
        self.ev.wait()
        self.ev.clear()
        try:
            self.fn(self)
        except BaseException as e:  # noqa
            self.exc = e
        finally:
            self.done = True
            self.sched._thread_finished(self)


class SimLock:
    """A lock whose acquisition parks the simulated thread under scheduler control."""

    def __init__(self, sched, name="lock"):
        self.sched = sched
        self.name = name
        self.owner = None
        self.acquisitions = 0

    def __enter__(self):
        s = self.sched
        t = s.current
        s.yield_point(f"lock.acquire:{self.name}")
        while self.owner is not None:
            s.ctx.probe("lock_contended")
            t.blocked_on = self
            s.switch_away(f"lock.wait:{self.name}")
        self.owner = t
        self.acquisitions += 1
        return self

    def __exit__(self, *exc):
        self.owner = None
        for t in self.sched.threads:
            if t.blocked_on is self:
                t.blocked_on = None
        self.sched.yield_point(f"lock.release:{self.name}")
        return False


class Sched:
    def __init__(self, ctx, switch_eighths=1, trace_files=("readers", "utils.py"), max_steps=200000):
        self.ctx = ctx
        self.tape = ctx.tape
        self.switch = switch_eighths
        self.threads = []
        self.current = None
        self.main_ev = threading.Event()
        self.max_steps = max_steps
        self.nsteps = 0
        self.error = None
        from . import linemon
        self.mon = linemon.get_monitor("sched-" + "+".join(trace_files), 4, tuple(trace_files))
        self.switches = 0
        self.last_site = None

    # -- pre-emption at line events (sys.monitoring, see linemon.py) -------------------
    def _on_line(self, code, line):
        t = self.current
        if t is None or threading.current_thread() is not t.thread:
            return
        k = t.lines
        t.lines = k + 1
        if k == t.kill_at:
            self.ctx.fault("kill_caller")
            self.ctx.note(f"{t.name}: SimInterrupt injected at {os.path.basename(code.co_filename)}:"
                          f"{line} ({code.co_name})")
            t.killed_in_call = t.current_call
            raise SimInterrupt("injected kill of caller")
        self.yield_point((code.co_name, line))

    # -- scheduling ---------------------------------------------------------------
    def spawn(self, name, fn):
        t = SimThread(self, name, fn)
        self.threads.append(t)
        return t

    def _runnable(self, exclude=None):
        return [t for t in self.threads
                if not t.done and t.blocked_on is None and t is not exclude]

    def yield_point(self, site):
        """Called by the running simulated thread. May switch to another thread."""
        t = self.current
        if t is None or threading.current_thread() is not t.thread:
            return      # not under simulation (e.g. setup code in the main thread)
        self.nsteps += 1
        t.steps += 1
        self.last_site = site
        if self.nsteps > self.max_steps:
            raise RuntimeError("step budget exceeded")
        others = self._runnable(exclude=t)
        if not others:
            self.ctx.steps += 1
            return
        if self.switch and self.tape.chance(self.switch, 8, "sched.switch"):
            for o in others:
                if o.stall > 0:
                    o.stall -= 1
            cand = [o for o in others if o.stall == 0] or others
            i = self.tape.draw(len(cand), "sched.pick")
            self.ctx.sched("switch", 1 + i)
            self._handoff(t, cand[i], site)
        else:
            self.ctx.sched("switch", 0)

    def switch_away(self, site):
        """Current thread cannot continue (blocked): must hand the baton over."""
        t = self.current
        others = self._runnable(exclude=t)
        if not others:
            self.error = Deadlock(f"all threads blocked at {site}")
            self.main_ev.set()
            # park forever (daemon thread); the main thread reports the deadlock
            threading.Event().wait()
        i = self.tape.draw(len(others), "sched.pick_blocked")
        self.ctx.sched("switch_blocked", 1 + i)
        self._handoff(t, others[i], site)

    def _handoff(self, frm, to, site):
        self.switches += 1
        self.current = to
        to.ev.set()
        frm.ev.wait()
        frm.ev.clear()

    def _thread_finished(self, t):
        nxt = self._runnable()
        if nxt:
            i = self.tape.draw(len(nxt), "sched.pick_after_exit") if len(nxt) > 1 else 0
            self.current = nxt[i]
            nxt[i].ev.set()
        else:
            if any((not x.done) for x in self.threads):
                self.error = Deadlock("threads remain but none is runnable")
            self.current = None
            self.main_ev.set()

    def run(self, wall_timeout=120):
        """Run all spawned threads to completion under the tape's schedule."""
        if not self.threads:
            return
        self.mon.callback = self._on_line
        for t in self.threads:
            t.thread.start()
        first = self.tape.draw(len(self.threads), "sched.first") if len(self.threads) > 1 else 0
        self.current = self.threads[first]
        self.current.ev.set()
        try:
            if not self.main_ev.wait(wall_timeout):
                raise RuntimeError(f"simulated threads hung (wall timeout); last site {self.last_site}")
        finally:
            self.mon.callback = None
        if self.error is not None:
            raise self.error
        for t in self.threads:
            t.thread.join(5)
