"""C11 scenarios (Engine B): simulated caller threads drive pulsarbat readers through
the I/O seam; every completed call is checked against an in-memory reference model
as the run proceeds, and the recorded history is checked afterwards.

 files         real readers (BasebandReader / GUPPIRawReader / DADAStokesReader) on
               the repository's sample files and on synthesised files; fault-free
 files_faults  the same with injected I/O errors and killed callers
 store         BaseReader driven through a harness subclass reading an in-memory
               block store: any sample rate (1 mHz .. 2 GHz), length up to 2e9
               samples, any signal class, with or without start time
"""

import json

import numpy as np

from . import core, files, iosim, snapshot
from .dasksim import SimScheduler, SchedPlan, SimAbort
from .inject import SimInterrupt, SimOSError
from .sched import Abandon, Sched, SimLock

_MODEL_CACHE = {}


def get_model(pb, rs):
    key = (core.REPO, json.dumps(rs, sort_keys=True))
    m = _MODEL_CACHE.get(key)
    if m is None:
        m = files.Model(pb, rs)
        if len(_MODEL_CACHE) > 64:
            _MODEL_CACHE.clear()
        _MODEL_CACHE[key] = m
    return m


def check_global_state(ctx, where):
    """Reads must not leave process-global state behind: the warnings filters are what the
    stream-opening code touches (baseband's format auto-detection uses
    warnings.catch_warnings(), which is not thread-safe)."""
    import warnings
    w0 = getattr(ctx, "_warn0", None)
    if w0 is not None and list(warnings.filters) != w0:
        now = [(f[0], getattr(f[2], "__name__", str(f[2]))) for f in warnings.filters[:3]]
        ctx.violate("global-state-changed", "reads:warnings.filters",
                    f"{where}: the process-wide warnings filters changed during concurrent reads "
                    f"(now starting with {now}); later reads that emit any warning will raise",
                    {"state": "warnings.filters"})


class Stop(BaseException):
    """Unwinds the remaining simulated threads after a violation."""


# ---------------------------------------------------------------------------
# oracles

def check_signal(ctx, who, model, reader, o, n, z, via):
    """Everything C11 says about the result of read(o, n)."""
    import astropy.units as u
    pb = core.setup_imports()
    site = f"{model.rs['cls']}.{via}"
    exp_type = getattr(pb, model.sigtype)
    if type(z) is not exp_type:
        ctx.violate("wrong-signal-type", f"{site}:type", f"{who}: {type(z).__name__} != {exp_type.__name__}")
    data = np.asarray(z.data)
    if len(z) != n or data.shape != (n,) + tuple(model.sample_shape):
        ctx.violate("wrong-length", f"{site}:shape",
                    f"{who}: read({o},{n}) returned shape {data.shape}, expected {(n,) + tuple(model.sample_shape)}")
    if data.dtype != model.dtype:
        ctx.violate("wrong-dtype", f"{site}:dtype", f"{who}: {data.dtype} != {model.dtype}")
    ref, tol = model.expected(o, n)
    if tol == 0.0:
        if data.tobytes() != np.ascontiguousarray(ref).tobytes():
            bad = int(np.sum(data != ref))
            ctx.violate("wrong-data", f"{site}:data",
                        f"{who}: read({o},{n}) differs from the file in {bad} of {data.size} values")
    else:
        if data.size and float(np.max(np.abs(data.astype(np.complex128) - ref))) > tol:
            ctx.violate("wrong-data", f"{site}:data",
                        f"{who}: read({o},{n}) (Hilbert path) differs from the reference analytic "
                        f"signal by {float(np.max(np.abs(data - ref))):.3e} > {tol:.3e}")
    # time stamp
    ta = reader.time_at(o)
    if (z.start_time is None) != (ta is None):
        ctx.violate("wrong-start-time", f"{site}:start_time", f"{who}: None-ness differs from time_at")
    if ta is not None:
        if via == "concat_adjacent":
            # concatenate re-derives the start time by Time arithmetic: equal within Time.isclose
            same = abs((z.start_time - ta).to_value(u.s)) < 4e-11
        else:
            same = snapshot.snap_time(z.start_time)[:4] == snapshot.snap_time(ta)[:4]
        if not same:
            ctx.violate("wrong-start-time", f"{site}:start_time",
                        f"{who}: read({o},{n}).start_time {z.start_time.isot} != time_at({o}) {ta.isot}")
        dt = (z.start_time - model.t0).to_value(u.s)
        srhz = model.sr.to_value(u.Hz)
        if abs(dt - o / srhz) > max(0.25 / srhz, 5e-11) + 1e-15 * abs(dt):
            ctx.violate("wrong-start-time", f"{site}:start_time",
                        f"{who}: start_time is {dt!r} s after the file start, expected {o / srhz!r}")
    # metadata
    if not u.isclose(z.sample_rate, model.sr, rtol=1e-14):
        ctx.violate("wrong-metadata", f"{site}:sample_rate", f"{who}: {z.sample_rate} != {model.sr}")
    for k, v in model.expect.items():
        if via == "concat_adjacent" and k in ("center_freq", "freq_align"):
            continue       # concatenate re-expresses the band; the labels are compared below
        got = getattr(z, k)
        if isinstance(v, str):
            ok = got == v
        else:
            ok = bool(u.isclose(got, v, rtol=1e-14))
        if not ok:
            ctx.violate("wrong-metadata", f"{site}:{k}", f"{who}: {k}={got} expected {v}")
    if "center_freq" in model.expect:
        # channel labels from the band model, computed independently
        nchan = data.shape[1]
        cbw = model.expect.get("chan_bw", model.sr)
        a = {"bottom": 0.0, "center": 0.5, "top": 1.0}[model.expect["freq_align"]]
        if nchan % 2:
            a = 0.5
        want = (model.expect["center_freq"].to_value(u.Hz)
                + cbw.to_value(u.Hz) * (np.arange(nchan) + a - nchan / 2))
        gotf = z.channel_freqs.to_value(u.Hz)
        if gotf.shape != want.shape or np.max(np.abs(gotf - want)) > 1e-9 * np.max(np.abs(want)):
            ctx.violate("wrong-metadata", f"{site}:channel_freqs",
                        f"{who}: channel labels {gotf[:3]}.. expected {want[:3]}..")


def check_static(ctx, model, reader):
    import astropy.units as u
    site = f"{model.rs['cls']}.static"
    if len(reader) != model.length:
        ctx.violate("wrong-length", f"{site}:len", f"len(reader)={len(reader)} file has {model.length}")
    if tuple(reader.shape[1:]) != tuple(model.sample_shape):
        ctx.violate("wrong-length", f"{site}:sample_shape", f"{reader.shape} vs {model.sample_shape}")
    if reader.dtype != model.dtype:
        ctx.violate("wrong-dtype", f"{site}:dtype", f"{reader.dtype} != {model.dtype}")
    if not u.isclose(reader.sample_rate, model.sr, rtol=1e-14):
        ctx.violate("wrong-metadata", f"{site}:sample_rate", f"{reader.sample_rate} != {model.sr}")
    if abs((reader.start_time - model.t0).to_value(u.s)) > 1e-10:
        ctx.violate("wrong-start-time", f"{site}:start_time", f"{reader.start_time.isot} vs {model.t0.isot}")


# ---------------------------------------------------------------------------
# client programs

def gen_offsets(tape, length, boundaries, label, maxn=48):
    """(o, n) biased towards frame/file boundaries, 0, len, n=0."""
    k = tape.weighted([4, 4, 1, 1, 1], f"{label}.okind")
    if k == 0 or not boundaries:
        o = tape.draw(length + 1, f"{label}.o")
    elif k == 1:
        b = boundaries[tape.draw(len(boundaries), f"{label}.b")]
        o = max(0, min(length, b - tape.rint(0, 6, f"{label}.bo") + 2))
    elif k == 2:
        o = 0
    elif k == 3:
        o = length
    else:
        o = max(0, length - tape.rint(0, 8, f"{label}.tail"))
    room = length - o
    nk = tape.weighted([5, 1, 2], f"{label}.nkind")
    if nk == 1 or room == 0:
        n = 0
    elif nk == 2:
        n = room if room <= maxn else min(maxn, room)
    else:
        n = 1 + tape.draw(min(room, maxn), f"{label}.n")
    return o, n


CALL_KINDS = ["read", "dask_read", "roundtrip", "oob", "concat", "dask_multi", "clone_read",
              "mutate_prev", "contains"]


def gen_program(tape, nreaders, lengths, bounds, label, ncalls, allow_lock):
    prog = []
    for c in range(ncalls):
        r = tape.draw(nreaders, f"{label}.c{c}.reader")
        kind = CALL_KINDS[tape.weighted([6, 4, 2, 2, 2, 2, 2, 1, 1], f"{label}.c{c}.kind")]
        call = {"kind": kind, "reader": r}
        L, B = lengths[r], bounds[r]
        if kind in ("read", "dask_read", "clone_read"):
            call["o"], call["n"] = gen_offsets(tape, L, B, f"{label}.c{c}")
            if kind == "read" and allow_lock:
                call["lock"] = tape.chance(2, 3, f"{label}.c{c}.lock")
            if kind == "clone_read":
                call["how"] = tape.weighted([3, 1, 1, 1], f"{label}.c{c}.how")
            if kind == "dask_read":
                call["chunks"] = tape.chance(1, 3, f"{label}.c{c}.chunks")
        elif kind == "dask_multi":
            call["reads"] = [list(gen_offsets(tape, L, B, f"{label}.c{c}.m{i}", maxn=24))
                             for i in range(2 + tape.draw(2, f"{label}.c{c}.nm"))]
            call["reader2"] = tape.draw(nreaders, f"{label}.c{c}.reader2")
            if tape.chance(1, 2, f"{label}.c{c}.same_range"):
                call["reads"] = [call["reads"][0]] * len(call["reads"])   # same (o, n) from each reader
        elif kind == "roundtrip":
            ks = [0, L, tape.draw(L + 1, f"{label}.c{c}.k")]
            if B:
                ks.append(B[tape.draw(len(B), f"{label}.c{c}.kb")])
            call["ks"] = ks
        elif kind == "oob":
            call["form"] = tape.draw(6, f"{label}.c{c}.form")
        elif kind == "concat":
            o, n = gen_offsets(tape, L, B, f"{label}.c{c}", maxn=40)
            n1 = tape.draw(n + 1, f"{label}.c{c}.cut")
            call.update(o=o, n1=n1, n2=n - n1)
        prog.append(call)
    return prog


class Client:
    def __init__(self, ctx, name, prog, readers, models, sched, lock, faults, history):
        self.ctx, self.name, self.prog = ctx, name, prog
        self.readers, self.models = readers, models
        self.sched, self.lock, self.faults, self.history = sched, lock, faults, history
        self.results = []
        self.killed = False

    def rec(self, call_id, kind, reader, o, n, outcome, h=None):
        self.history.append({"seq": len(self.history), "thread": self.name, "call": call_id,
                             "kind": kind, "reader": reader, "o": o, "n": n, "outcome": outcome,
                             "hash": h})
        self.ctx.log("hist", self.name, call_id, kind, reader, o, n, outcome, h)

    def __call__(self, t):
        import astropy.units as u
        import cloudpickle
        import dask
        pb = core.setup_imports()
        ctx = self.ctx
        for ci, call in enumerate(self.prog):
            if self.sched.stop:
                return
            t.current_call = (self.name, ci)
            t.faulted_call = None
            kind = call["kind"]
            ri = call["reader"]
            reader, model = self.readers[ri], self.models[ri]
            who = f"{self.name} call {ci} {kind}"
            ctx.counts[f"call.{kind}"] += 1
            try:
                if kind == "read":
                    o, n = call["o"], call["n"]
                    kw = {"lock": self.lock} if call.get("lock") and self.lock is not None else {}
                    z = reader.read(o, n, **kw)
                    check_signal(ctx, who, model, reader, o, n, z, "read")
                    self.results.append((ri, o, n, z))
                    self.rec(ci, kind, ri, o, n, "ok", core.hbytes(np.asarray(z.data).tobytes()))
                    self._reach(call, model)
                elif kind == "clone_read":
                    o, n = call["o"], call["n"]
                    how = call.get("how", 0)
                    if how == 1:
                        import pickle
                        clone = pickle.loads(pickle.dumps(reader))
                    elif how == 2:
                        import copy
                        clone = copy.copy(reader)
                    elif how == 3:
                        import copy
                        clone = copy.deepcopy(reader)
                    else:
                        clone = cloudpickle.loads(cloudpickle.dumps(reader))
                    z = clone.read(o, n)
                    check_signal(ctx, who, model, clone, o, n, z, "clone_read")
                    self.rec(ci, kind, ri, o, n, "ok", core.hbytes(np.asarray(z.data).tobytes()))
                    ctx.probe("read_through_pickled_clone")
                elif kind == "dask_read":
                    o, n = call["o"], call["n"]
                    kw = {}
                    if call.get("chunks") and n > 1:
                        kw["chunks"] = (max(n // 2, 1),) + tuple(model.sample_shape)
                    zl = reader.dask_read(o, n, **kw)
                    import dask.array as da
                    if not isinstance(zl.data, da.Array):
                        ctx.violate("not-dask-backed", f"{model.rs['cls']}.dask_read:container",
                                    f"{who}: dask_read returned {type(zl.data).__name__}")
                    plan = SchedPlan(ctx.tape, f"{self.name}.c{ci}.sched", allow_faults=False)
                    sim = SimScheduler(ctx, plan, f"{self.name}.c{ci}.sched")
                    z = zl.compute(scheduler=sim)
                    check_signal(ctx, who, model, reader, o, n, z, "dask_read")
                    self.rec(ci, kind, ri, o, n, "ok", core.hbytes(np.asarray(z.data).tobytes()))
                    ctx.probe("dask_read_computed_under_simulated_scheduler")
                elif kind == "dask_multi":
                    r2 = call["reader2"]
                    lazies, metas = [], []
                    for j, (o, n) in enumerate(call["reads"]):
                        rr = ri if j % 2 == 0 else r2
                        L2 = len(self.readers[rr])
                        o = min(o, L2)
                        n = min(n, L2 - o)
                        lazies.append(self.readers[rr].dask_read(o, n))
                        metas.append((rr, o, n))
                    plan = SchedPlan(ctx.tape, f"{self.name}.c{ci}.sched", allow_faults=False)
                    sim = SimScheduler(ctx, plan, f"{self.name}.c{ci}.sched")
                    outs = dask.compute(*[z.data for z in lazies], scheduler=sim)
                    for (rr, o, n), zl, arr in zip(metas, lazies, outs):
                        z = type(zl).like(zl, arr)
                        check_signal(ctx, who, self.models[rr], self.readers[rr], o, n, z, "dask_multi")
                        self.rec(ci, kind, rr, o, n, "ok", core.hbytes(np.asarray(arr).tobytes()))
                    ctx.probe("multi_output_dask_read")
                    if r2 != ri:
                        ctx.probe("multi_output_dask_read_two_readers")
                elif kind == "roundtrip":
                    for k in call["ks"]:
                        ta = reader.time_at(k)
                        if ta is not None:
                            got = reader.offset_at(ta)
                            if got != k:
                                ctx.violate("roundtrip", f"{model.rs['cls']}.offset_at:absolute",
                                            f"{who}: offset_at(time_at({k})) = {got}")
                        tr = reader.time_at(k, unit=u.s)
                        got = reader.offset_at(tr)
                        if got != k:
                            ctx.violate("roundtrip", f"{model.rs['cls']}.offset_at:relative",
                                        f"{who}: offset_at(time_at({k}, unit=s)) = {got}")
                    st = reader.stop_time
                    if st is not None and snapshot.snap_time(st)[:4] != snapshot.snap_time(
                            reader.time_at(len(reader)))[:4]:
                        ctx.violate("roundtrip", f"{model.rs['cls']}.stop_time", f"{who}: stop_time != time_at(len)")
                    self.rec(ci, kind, ri, None, None, "ok")
                elif kind == "contains":
                    # contains() is not part of C11's statement: observed, never alarmed
                    L = len(reader)
                    if reader.start_time is not None and L > 0:
                        for k, want in ((0, True), (L - 1, True), (L, False), (L // 2, True)):
                            got = bool(reader.contains(reader.time_at(k)))
                            if got != want:
                                ctx.probe("contains_disagrees_at_edge_(not_alarmed)")
                    self.rec(ci, kind, ri, None, None, "ok")
                elif kind == "oob":
                    L = len(reader)
                    form = call["form"]
                    req = [(L, 1), (-1, 1), (0, -1), (L - 1 if L else 0, 3), (L + 5, 0), None][form]
                    returned = False
                    if req is None:
                        # times of the positions just outside both ends, absolute and relative
                        # (no extra draw: all of them, every time)
                        for k in (L + 2, L + 1, -1, -2):
                            for rel in (False, True):
                                if not rel and reader.start_time is None:
                                    continue
                                tq = reader.time_at(k, unit=u.s) if rel else reader.time_at(k)
                                try:
                                    reader.offset_at(tq)
                                    returned = True
                                    req = f"offset_at(time_at({k}{', unit=s' if rel else ''}))"
                                except (ValueError, EOFError):
                                    pass
                                if returned:
                                    break
                            if returned:
                                break
                    else:
                        try:        # eager and lazy entry points alternate with the call index (no draw)
                            (reader.dask_read if ci % 2 else reader.read)(*req)
                            returned = True
                            if ci % 2:
                                req = f"dask_read{req}"
                        except (ValueError, EOFError):
                            pass
                    if returned:
                        ctx.violate("out-of-range-accepted", f"{model.rs['cls']}.bounds",
                                    f"{who}: request {req} outside [0, {L}] did not raise")
                    ctx.probe("out_of_range_rejected")
                    self.rec(ci, kind, ri, None, None, "rejected")
                elif kind == "concat":
                    o, n1, n2 = call["o"], call["n1"], call["n2"]
                    a = reader.read(o, n1)
                    b = reader.read(o + n1, n2)
                    check_signal(ctx, who, model, reader, o, n1, a, "read")
                    check_signal(ctx, who, model, reader, o + n1, n2, b, "read")
                    if not model.hilbert and n1 and n2:
                        c = pb.concatenate([a, b])
                        check_signal(ctx, who, model, reader, o, n1 + n2, c, "concat_adjacent")
                        ctx.probe("adjacent_reads_concatenated")
                    self.rec(ci, kind, ri, o, n1 + n2, "ok")
                elif kind == "mutate_prev":
                    if self.results:
                        rj, o, n, z = self.results[-1]
                        if isinstance(z.data, np.ndarray) and z.data.size:
                            z *= 0      # the client's own explicit in-place operation
                            ctx.probe("client_mutated_previous_result")
                            z2 = self.readers[rj].read(o, n)
                            check_signal(ctx, who, self.models[rj], self.readers[rj], o, n, z2,
                                         "read_after_client_mutation")
                    self.rec(ci, kind, ri, None, None, "ok")
            except (Stop, Abandon):
                return
            except core.Violation:
                raise
            except SimInterrupt:
                # this caller was killed; the others go on
                self.killed = True
                self.rec(ci, kind, ri, call.get("o"), call.get("n"), "killed")
                ctx.probe("caller_killed_inside_call")
                return
            except BaseException as e:  # noqa
                if t.faulted_call == (self.name, ci):
                    self.rec(ci, kind, ri, call.get("o"), call.get("n"), f"raised:{type(e).__name__}")
                    ctx.probe("faulted_call_raised")
                    if isinstance(e, SimOSError):
                        ctx.probe("injected_error_propagated_unchanged")
                    continue
                check_global_state(ctx, f"{who} raised {type(e).__name__}")
                ctx.violate("unexpected-exception", f"{model.rs['cls']}.{kind}:raises",
                            f"{who} {call}: {type(e).__name__}: {e}")
            else:
                if t.faulted_call == (self.name, ci):
                    ctx.probe("faulted_call_returned_correct_result")

    def _reach(self, call, model):
        o, n = call["o"], call["n"]
        ctx = self.ctx
        if n == 0:
            ctx.probe("read_n0")
        if o + n == model.length:
            ctx.probe("read_to_end")
        for b in model.boundaries:
            if o < b < o + n:
                ctx.probe("read_spans_frame_or_file_boundary")
                break


def _boundaries(model, fspec):
    k = fspec["kind"]
    L = model.length
    if k == "sample_dada":
        b = []
    elif k == "sample_vdif":
        b = [10000]                      # 20000 real samples per frame
    elif k == "sample_guppi":
        b = list(range(1024, L, 1024))[:6] + list(range(8192, L, 8192))
    elif k == "sample_stokes":
        b = []
    else:
        spf = fspec["spf"]
        if k in ("vdif_real",):
            spf = spf // 2
        b = list(range(spf, L, spf))
    return sorted(set(x for x in b if 0 < x < L))


def run_files(ctx, faults=False, deep=False):
    import warnings
    pb = core.setup_imports()
    files.workdir()
    tape = ctx.tape
    ctx._warn0 = list(warnings.filters)
    nread = 1 + tape.weighted([3, 1], "nreaders")
    fspecs, rss, models = [], [], []
    for i in range(nread):
        if i == 1 and "lsb" in fspecs[0] and tape.chance(1, 4, "f1.samefile"):
            # the SAME file read with different reader options (sideband flags)
            other = [x for x in ("no", "all", "mask") if x != fspecs[0]["lsb"]]
            fs = dict(fspecs[0], lsb=other[tape.draw(len(other), "f1.samefile.lsb")])
            ctx.probe("two_readers_same_file_different_options")
        elif i == 1 and "seed" in fspecs[0] and tape.chance(1, 2, "f1.sibling"):
            # a sibling: same class and geometry, different content
            fs = dict(fspecs[0], seed=(fspecs[0]["seed"] + 1 + tape.draw(7, "f1.sibseed")) % 4096)
            ctx.probe("sibling_readers_same_geometry")
        else:
            fs = files.gen_file_spec(tape, label=f"f{i}", kinds=[
                "sample_guppi", "vdif_real", "dada_complex", "guppi", "sample_dada", "vdif_complex",
                "dada_multi"] if deep else None)
        rs = files.reader_spec(fs)
        m = get_model(pb, rs)
        m.boundaries = _boundaries(m, fs)
        fspecs.append(fs)
        rss.append(rs)
        models.append(m)
    switch = [1, 0, 4, 8][tape.draw(4, "switch")]
    nthreads = 1 + (tape.weighted([2, 3, 2, 1], "nthreads") if ctx.tier == "quick"
                    else tape.weighted([2, 3, 3, 2, 1, 1], "nthreads"))
    if deep:
        # pre-emption also at every line of the dependency that opens and decodes the files:
        # many more yield points per read, so fewer threads/calls and a low switch rate
        switch = [1, 2][tape.draw(2, "deep.switch")]
        nthreads = 2 + tape.draw(2, "deep.nthreads")
        sched = Sched(ctx, switch_eighths=switch, tool_id=1, packages=("baseband",), max_steps=2000000)
    else:
        sched = Sched(ctx, switch_eighths=switch)
    sched.stop = False
    fault_rate = 0
    if faults:
        fault_rate = [2, 1, 6][tape.draw(3, "fault_rate")]
    io = iosim.IOSim(ctx, sched, fault_eighths=fault_rate)
    lock = SimLock(sched) if tape.chance(1, 2, "uselock") else None
    deep_all_locked = False
    if deep:
        # one run in three: EVERY read takes the shared lock (then nothing may go wrong: that
        # is what lock= is documented for); otherwise no read takes it
        deep_all_locked = tape.chance(1, 3, "deep.all_locked")
        lock = SimLock(sched) if deep_all_locked else None
        ctx._deep_unlocked = not deep_all_locked
    history = []
    case = {"files": fspecs, "readers": rss, "threads": [], "switch_eighths": switch,
            "io_fault_rate_64ths": fault_rate, "shared_lock": lock is not None}
    ctx.sample = case
    ctx.log("case", fspecs, switch, nthreads, fault_rate)
    with iosim.installed(pb, io):
        readers = []
        for rs in rss:
            try:
                readers.append(files.open_reader(pb, rs))
            except Exception as e:
                ctx.violate("unexpected-exception", f"{rs['cls']}.__init__:raises",
                            f"constructing the reader for a valid file with documented arguments "
                            f"{ {k: v for k, v in rs.items() if k != 'name'} } raised {type(e).__name__}: {e}")
        for m, r in zip(models, readers):
            check_static(ctx, m, r)
        if deep:
            # warm-up outside the simulation: first-use paths inside the dependency (format
            # registries, lazy imports, warning registries) must not depend on what this
            # process ran before, or the run would not replay in a fresh interpreter
            for r in readers:
                for _ in range(2):
                    r.read(0, min(2, len(r)))
        base_dicts = [snapshot.snap_reader(r) for r in readers]
        clients = []
        for ti in range(nthreads):
            ncalls = 1 + tape.draw(5 if ctx.tier == "quick" else 9, f"t{ti}.ncalls")
            if deep:
                ncalls = 1 + tape.draw(2, f"t{ti}.ncalls.deep")
            prog = gen_program(tape, nread, [m.length for m in models],
                               [m.boundaries for m in models], f"t{ti}", ncalls, lock is not None)
            if deep:
                for c in prog:      # plain reads only: the point is the interleaving inside them
                    if c["kind"] not in ("read", "dask_read"):
                        o, n = gen_offsets(tape, models[c["reader"]].length, models[c["reader"]].boundaries,
                                           f"t{ti}.deepread")
                        c.clear()
                        c.update(kind="read", reader=0 if nread == 1 else tape.draw(nread, f"t{ti}.dr"),
                                 o=o, n=n)
                    c["o"] = min(c["o"], models[c["reader"]].length)
                    c["n"] = min(c["n"], models[c["reader"]].length - c["o"])
                    if c["kind"] == "read":
                        c["lock"] = deep_all_locked
                    elif deep_all_locked:
                        c["kind"] = "read"
                        c["lock"] = True
                        c.pop("chunks", None)
            case["threads"].append(prog)
            c = Client(ctx, f"T{ti}", prog, readers, models, sched, lock, faults, history)
            clients.append(c)

            def body(t, c=c):
                try:
                    c(t)
                except core.Violation as v:
                    if not sched.stop:
                        sched.stop = True
                        sched.violation = v
                except (Stop, Abandon):
                    pass

            th = sched.spawn(f"T{ti}", body)
            if faults and tape.chance(1, 4, f"t{ti}.kill"):
                th.kill_at = tape.draw(400, f"t{ti}.kill_at")
                case.setdefault("kills", []).append({"thread": f"T{ti}", "at_line_event": th.kill_at})
            if tape.chance(1, 6, f"t{ti}.stall"):
                th.stall = tape.rint(5, 60, f"t{ti}.stall_n")
                ctx.probe("stalled_caller")
        sched.violation = None
        orig_yield = sched.yield_point

        def yield_point(site):
            if sched.stop:
                raise Stop()
            return orig_yield(site)

        sched.yield_point = yield_point
        from .sched import Deadlock
        try:
            sched.run()
        except Deadlock as e:
            if sched.violation is not None:
                raise sched.violation
            held = lock is not None and lock.owner is not None
            ctx.violate("deadlock", f"{models[0].rs['cls']}.read:lock",
                        f"all remaining callers are blocked for ever ({e}); the lock passed as lock= is "
                        f"{'still held by ' + lock.owner.name + ' (done=' + str(lock.owner.done) + ')' if held else 'free'}")
        if sched.violation is not None:
            raise sched.violation
        # ---- after the run ---------------------------------------------------
        for t in sched.threads:
            if t.exc is not None and not isinstance(t.exc, (Stop, Abandon)):
                raise t.exc
        check_global_state(ctx, "after all callers finished")
        if io.open_handles != 0:
            ctx.probe("handle_left_open_after_all_calls")
        # fault-free epilogue: every reader still answers correctly, within budget
        io.armed = False
        sched2_steps = sched.nsteps
        for ri, (r, m) in enumerate(zip(readers, models)):
            o, n = gen_offsets(tape, m.length, m.boundaries, f"epilogue{ri}")
            try:
                z = r.read(o, n)
            except Exception as e:
                ctx.violate("unexpected-exception", f"{m.rs['cls']}.read:after-faults",
                            f"fault-free read({o},{n}) after the run raised {type(e).__name__}: {e}")
            check_signal(ctx, "epilogue", m, r, o, n, z, "read")
            if snapshot.snap_reader(r) != base_dicts[ri]:
                # statelessness is judged by behaviour (the checks above); a changed or new
                # attribute alone is only recorded
                ctx.probe("reader_attributes_changed_(not_alarmed)")
    # history: every result for the same (reader, o, n) is bit-identical
    seen = {}
    for h in history:
        if h["outcome"] == "ok" and h["hash"] is not None:
            key = (h["reader"], h["o"], h["n"])
            if key in seen and seen[key][0] != h["hash"]:
                ctx.violate("history-inconsistent", f"{models[h['reader']].rs['cls']}:history",
                            f"read{key[1:]} returned different data in {seen[key][1]} and "
                            f"{h['thread']} call {h['call']}")
            seen.setdefault(key, (h["hash"], f"{h['thread']} call {h['call']}"))
            if key in seen and seen[key][1] != f"{h['thread']} call {h['call']}":
                ctx.probe("same_range_read_twice")
    ctx.counts["thread_steps"] += sched.nsteps
    ctx.counts["context_switches"] += sched.switches
    ctx.counts["handles_opened"] += io.nopen
    if io.max_open > 1:
        ctx.probe("max_two_or_more_handles_open")
    ctx.nontrivial = len(history) >= 2


def run_files_faults(ctx):
    return run_files(ctx, faults=True)


def run_files_deep(ctx):
    """Pre-emption also inside baseband. Without lock= the callers interleave inside
    baseband.open(), which is not thread-safe (warnings.catch_warnings in the format
    auto-detection, shared state while opening file sequences, ...): whatever goes wrong there
    -- an exception out of a read, process-global state left changed -- is ONE finding about
    the call site 'readers open per read through baseband without a lock', rooted in the
    dependency. Wrong data, and anything at all when every read holds the shared lock, is
    reported under its own name."""
    try:
        return run_files(ctx, faults=False, deep=True)
    except core.Violation as v:
        if getattr(ctx, "_deep_unlocked", False) and v.kind in ("unexpected-exception",
                                                               "global-state-changed"):
            ctx.log("umbrella", v.kind, v.site)
            raise core.Violation("dependency-race", "baseband.open:concurrent-reads-without-lock",
                                 f"{v.kind} @ {v.site}: {v.detail}", {"scenario": "files_deep"})
        raise


# ---------------------------------------------------------------------------
# scenario "store": BaseReader itself, through its documented extension point


STORE_RATES = [(1.0, "MHz"), (1e-3, "Hz"), (2.0, "GHz"), (1.0 / 3, "Hz"), (44.1, "kHz"),
               (3.125, "MHz"), (800.0, "MHz"), (1.0, "Hz"), (1e9 / 7, "Hz")]
STORE_LENGTHS = [64, 1000, 1 << 20, 10 ** 9, 2 * 10 ** 9, 7, 1]
STORE_CLASSES = [("Signal", (), "float32"), ("Signal", (3,), "complex64"),
                 ("BasebandSignal", (4,), "complex64"), ("IntensitySignal", (2,), "float32"),
                 ("FullStokesSignal", (2, 4), "float32"),
                 ("DualPolarizationSignal", (3, 2), "complex128"), ("RadioSignal", (2, 2), "float64")]


from .storevals import store_values


def store_reader_class(pb):
    from . import storereader
    return storereader.SimStoreReader


def _set_store_sched(s):
    from . import storereader
    storereader.CUR["sched"] = s


class StoreModel:
    hilbert = False

    def __init__(self, pb, spec):
        import astropy.units as u
        from astropy.time import Time
        self.rs = {"cls": "SimStoreReader"}
        self.spec = spec
        self.sigtype, ss, dt = spec["cls"]
        self.sample_shape = tuple(ss)
        self.dtype = np.dtype(dt)
        self.sr = spec["sr"][0] * getattr(u, spec["sr"][1])
        self.length = spec["length"]
        self.t0 = None if spec["start"] is None else Time(spec["start"], format="isot", precision=9)
        self.expect = {}
        if self.sigtype != "Signal":
            self.expect = {"center_freq": 400 * u.MHz, "freq_align": spec["align"]}
            if self.sigtype in ("IntensitySignal", "FullStokesSignal", "RadioSignal"):
                self.expect["chan_bw"] = 1 * u.MHz
            if self.sigtype == "DualPolarizationSignal":
                self.expect["pol_type"] = "circular"
        if self.sample_shape and self.sample_shape[0] % 2 and "freq_align" in self.expect:
            self.expect["freq_align"] = "center"
        self.boundaries = [b for b in (16, 32, self.length // 2, self.length - 16) if 0 < b < self.length]

    def signal_kwargs(self):
        kw = {k: v for k, v in self.expect.items()}
        if self.sample_shape and self.sample_shape[0] % 2 and "freq_align" in kw:
            kw["freq_align"] = self.spec["align"]
        return kw

    def expected(self, o, n):
        return store_values(o, n, self.sample_shape, self.dtype), 0.0


def run_store(ctx):
    import astropy.units as u
    pb = core.setup_imports()
    tape = ctx.tape
    cls = store_reader_class(pb)
    nread = 1 + tape.weighted([3, 1], "nreaders")
    specs, models, readers = [], [], []
    switch = [1, 0, 4, 8][tape.draw(4, "switch")]
    nthreads = 1 + tape.weighted([2, 3, 2, 1], "nthreads")
    sched = Sched(ctx, switch_eighths=switch)
    sched.stop = False
    for i in range(nread):
        sr = STORE_RATES[tape.draw(len(STORE_RATES), f"s{i}.sr")]
        L = STORE_LENGTHS[tape.draw(len(STORE_LENGTHS), f"s{i}.len")]
        srhz = (sr[0] * getattr(u, sr[1])).to_value(u.Hz)
        L = int(max(1, min(L, 1e8 * srhz)))         # keep the time span below ~3 years
        spec = {"cls": list(STORE_CLASSES[tape.draw(len(STORE_CLASSES), f"s{i}.cls")]),
                "sr": list(sr), "length": L,
                "start": [None] + files.T0S + ["1999-12-31T23:59:59.999999999"],
                "align": ["center", "bottom", "top"][tape.draw(3, f"s{i}.align")]}
        spec["start"] = spec["start"][tape.draw(len(spec["start"]), f"s{i}.start")]
        m = StoreModel(pb, spec)
        kw = m.signal_kwargs()
        r = cls(shape=(L,) + m.sample_shape, dtype=m.dtype, signal_type=getattr(pb, m.sigtype),
                sample_rate=m.sr, start_time=m.t0, **kw)
        specs.append(spec)
        models.append(m)
        readers.append(r)
    case = {"store_readers": specs, "threads": [], "switch_eighths": switch}
    ctx.sample = case
    ctx.log("case", specs, switch, nthreads)
    history = []
    for m, r in zip(models, readers):
        if len(r) != m.length or r.dtype != m.dtype:
            ctx.violate("wrong-length", "SimStoreReader.static:len", f"{len(r)} vs {m.length}")
    _set_store_sched(sched)
    try:
        for ti in range(nthreads):
            ncalls = 1 + tape.draw(6, f"t{ti}.ncalls")
            prog = gen_program(tape, nread, [m.length for m in models],
                               [m.boundaries for m in models], f"t{ti}", ncalls, False)
            # more round trips here: this scenario is about time/offset arithmetic
            for c in range(1 + tape.draw(3, f"t{ti}.nrt")):
                ri = tape.draw(nread, f"t{ti}.rt{c}.reader")
                L = models[ri].length
                ks = [0, L, tape.draw(L + 1, f"t{ti}.rt{c}.k"), max(0, L - 1),
                      min(L, 1 + tape.draw(1 << 20, f"t{ti}.rt{c}.k2"))]
                prog.insert(tape.draw(len(prog) + 1, f"t{ti}.rt{c}.pos"),
                            {"kind": "roundtrip", "reader": ri, "ks": ks})
            case["threads"].append(prog)
            c = Client(ctx, f"T{ti}", prog, readers, models, sched, None, False, history)

            def body(t, c=c):
                try:
                    c(t)
                except core.Violation as v:
                    if not sched.stop:
                        sched.stop = True
                        sched.violation = v
                except (Stop, Abandon):
                    pass

            sched.spawn(f"T{ti}", body)
        sched.violation = None
        orig_yield = sched.yield_point

        def yield_point(site):
            if sched.stop:
                raise Stop()
            return orig_yield(site)

        sched.yield_point = yield_point
        sched.run()
        if sched.violation is not None:
            raise sched.violation
        for t in sched.threads:
            if t.exc is not None and not isinstance(t.exc, (Stop, Abandon)):
                raise t.exc
    finally:
        _set_store_sched(None)
    ctx.counts["thread_steps"] += sched.nsteps
    ctx.counts["context_switches"] += sched.switches
    ctx.nontrivial = len(history) >= 2
