"""Registry of public pulsarbat operations used by the engines.

Each op has
  applies(info)            -> bool
  gen(tape, info)          -> desc   (JSON-able description of the arguments)
  prepare(pb, z, desc)     -> args   (dict of materialised argument objects; these
                                      are the caller-owned arguments that C14
                                      snapshots; built once per step)
  call(pb, z, args, desc)  -> result (a Signal, an array, or any value)

gen() looks only at `info` (class, shape, dtype, metadata presence), never at
sample values, so the same desc applies to the NumPy twin and the Dask signal.
"""

import numpy as np


class Info:
    def __init__(self, z):
        self.cls = type(z).__name__
        self.shape = tuple(int(s) for s in z.shape)
        self.n = self.shape[0] if self.shape else 0
        self.ndim = len(self.shape)
        self.dtype = str(z.dtype)
        self.kind = np.dtype(z.dtype).kind
        self.has_start = z.start_time is not None
        self.is_radio = hasattr(z, "center_freq")
        self.nchan = self.shape[1] if self.is_radio else None
        self.is_baseband = self.cls in ("BasebandSignal", "DualPolarizationSignal")
        self.is_dual = self.cls == "DualPolarizationSignal"
        self.is_stokes = self.cls == "FullStokesSignal"
        self.pol = getattr(z, "pol_type", None)
        self.sample_shape = self.shape[1:]


OPS = {}


def register(cls):
    OPS[cls.name] = cls()
    return cls


class Op:
    name = "?"
    terminal = False      # result is not a signal
    fft_based = False     # rejects time-axis chunking on Dask
    numpy_only = False    # not offered to Engine A

    def applies(self, info):
        return True

    def gen(self, tape, info):
        return {}

    def prepare(self, pb, z, desc):
        return {}

    def call(self, pb, z, args, desc):
        raise NotImplementedError


def _u():
    import astropy.units as u
    return u


# ----------------------------------------------------------------------------
@register
class TSlice(Op):
    name = "tslice"

    def gen(self, tape, info):
        n = info.n
        k = tape.weighted([5, 2, 1, 1], "tslice.kind")
        if k == 0:      # ordinary crop
            a = tape.draw(max(n, 1), "tslice.a")
            b = a + 1 + tape.draw(max(n - a, 1), "tslice.len")
            return {"start": a, "stop": min(b, n), "step": 1}
        if k == 1:      # with step
            a = tape.draw(max(n, 1), "tslice.a")
            return {"start": a, "stop": None, "step": tape.rint(2, 4, "tslice.step")}
        if k == 2:      # negative / open indices
            return {"start": -tape.rint(1, max(n, 1), "tslice.na"), "stop": None, "step": 1}
        return {"start": None, "stop": -tape.rint(0, max(n, 1), "tslice.nb") or None, "step": 1}

    def call(self, pb, z, args, desc):
        return z[slice(desc["start"], desc["stop"], desc["step"])]


@register
class FSlice(Op):
    name = "fslice"

    def applies(self, info):
        return info.is_radio

    def gen(self, tape, info):
        nc = info.nchan
        a = tape.draw(nc, "fslice.a")
        b = a + 1 + tape.draw(nc - a, "fslice.len")
        d = {"a": a, "b": min(b, nc), "t": None}
        if tape.chance(1, 3, "fslice.witht"):
            s = tape.draw(max(info.n, 1), "fslice.ts")
            d["t"] = [s, None]
        return d

    def call(self, pb, z, args, desc):
        t = slice(None) if desc["t"] is None else slice(desc["t"][0], desc["t"][1])
        return z[t, desc["a"]:desc["b"]]


@register
class StokesKey(Op):
    name = "stokes_key"

    def applies(self, info):
        return info.is_stokes

    def gen(self, tape, info):
        return {"key": "IQUV"[tape.draw(4, "stokes.key")], "attr": tape.chance(1, 2, "stokes.attr")}

    def call(self, pb, z, args, desc):
        if desc["attr"]:
            return getattr(z, "stokes" + desc["key"])
        return z[desc["key"]]


@register
class Like(Op):
    name = "like"

    def gen(self, tape, info):
        return {"form": tape.draw(2, "like.form")}

    def call(self, pb, z, args, desc):
        if desc["form"] == 0:
            return type(z).like(z)
        return type(z).like(z, z.data, meta={"new": 1})


# only ufuncs / operators: non-ufunc NumPy functions (np.real, np.sum ...) convert through
# __array__, which computes by definition and is not a pulsarbat operation
UNARY = ["negative", "conj", "square", "abs", "sqrt_abs", "exp_small", "op_neg", "op_abs",
         "isfinite"]


@register
class Unary(Op):
    name = "unary"

    def gen(self, tape, info):
        return {"f": UNARY[tape.draw(len(UNARY), "unary.f")]}

    def call(self, pb, z, args, desc):
        f = desc["f"]
        if f == "negative":
            return np.negative(z)
        if f == "conj":
            return np.conj(z)
        if f == "square":
            return np.square(z)
        if f == "abs":
            return np.abs(z)
        if f == "sqrt_abs":
            # (+1: sqrt is ill-conditioned at 0 and would amplify a 1e-16 difference between two
            # correct FFT evaluations to 1e-8; every generated operation is well-conditioned)
            return np.sqrt(np.abs(z) + 1)
        if f == "exp_small":
            return np.exp(z * 0.01)
        if f == "op_neg":
            return -z
        if f == "op_abs":
            return abs(z)
        if f == "isfinite":
            return np.isfinite(z)
        raise ValueError(f)


BINOPS = ["add", "sub", "mul", "div", "radd", "rsub", "rmul", "np_multiply", "np_add", "pow2"]
OTHER = ["scalar", "cscalar", "self", "array_full", "array_bcast", "twin_signal"]


@register
class Binary(Op):
    name = "binary"

    def gen(self, tape, info):
        return {"op": BINOPS[tape.draw(len(BINOPS), "binary.op")],
                "other": OTHER[tape.draw(len(OTHER), "binary.other")],
                "seed": tape.draw(256, "binary.seed")}

    def prepare(self, pb, z, desc):
        o = desc["other"]
        rng = np.random.default_rng(desc["seed"])
        if o == "scalar":
            return {"w": 2.5}
        if o == "cscalar":
            return {"w": (1 + 2j)}
        if o == "self":
            return {"w": z}
        if o == "array_full":
            return {"w": rng.standard_normal(z.shape).astype(
                np.float32 if np.dtype(z.dtype).itemsize <= 8 and np.dtype(z.dtype).kind != "f"
                or z.dtype == np.float32 else np.float64)}
        if o == "array_bcast":
            return {"w": rng.standard_normal(z.shape[1:]).astype(np.float32)}
        if o == "twin_signal":
            vals = rng.standard_normal(z.shape)
            if np.dtype(z.dtype).kind == "c":
                vals = vals + 1j * rng.standard_normal(z.shape)
            return {"w": type(z).like(z, vals.astype(z.dtype))}
        raise ValueError(o)

    def call(self, pb, z, args, desc):
        w = args["w"]
        op = desc["op"]
        if op == "add":
            return z + w
        if op == "sub":
            return z - w
        if op == "mul":
            return z * w
        if op == "div":
            return z / (w if desc["other"] in ("scalar", "cscalar") else 3.0)
        if op == "radd":
            return w + z
        if op == "rsub":
            return w - z
        if op == "rmul":
            return w * z
        if op == "np_multiply":
            return np.multiply(z, w)
        if op == "np_add":
            return np.add(w, z)
        if op == "pow2":
            return z ** 2
        raise ValueError(op)


@register
class ToIntensity(Op):
    name = "to_intensity"

    def applies(self, info):
        return info.is_baseband

    def call(self, pb, z, args, desc):
        return z.to_intensity()


@register
class PolConv(Op):
    name = "polconv"

    def applies(self, info):
        return info.is_dual

    def gen(self, tape, info):
        return {"to": ["linear", "circular", "stokes"][tape.draw(3, "pol.to")]}

    def call(self, pb, z, args, desc):
        return {"linear": z.to_linear, "circular": z.to_circular, "stokes": z.to_stokes}[desc["to"]]()


def _gen_shift_values(tape, shape, label, scale=1.0):
    vals = []
    cnt = int(np.prod(shape)) if shape else 1
    table = [1.5, -2.25, 0.0, 3.0, -1.0, 0.5, -0.75, 7.0, 1e-9, -4.5]
    for i in range(cnt):
        vals.append(table[tape.draw(len(table), f"{label}.v{i}")] * scale)
    return vals


@register
class TimeShift(Op):
    name = "time_shift"
    fft_based = True

    def gen(self, tape, info):
        kind = tape.weighted([4, 2, 2, 1, 1, 1], "tshift.kind")
        ss = info.sample_shape
        if kind == 0:
            shp = ()
        elif kind == 1 and len(ss) >= 1:
            shp = (ss[0],)
        elif kind == 2 and len(ss) >= 1:
            shp = tuple(ss)
        elif kind == 3 and len(ss) >= 2:
            shp = (1,) + tuple(ss[1:2])
        elif kind == 4:
            shp = "quantity"
        elif kind == 5:
            shp = "toomany"
        else:
            shp = ()
        d = {"crop": tape.chance(1, 2, "tshift.crop")}
        if shp == "quantity":
            d["q"] = _gen_shift_values(tape, (), "tshift")
            d["shape"] = []
            d["quantity"] = True
        elif shp == "toomany":
            d["vals"] = [1.0] * int(np.prod(info.shape[1:] + (1,)))
            d["shape"] = list(info.shape[1:] + (1,))
        else:
            d["vals"] = _gen_shift_values(tape, shp, "tshift")
            d["shape"] = list(shp)
        d["aslist"] = tape.chance(1, 6, "tshift.aslist")
        return d

    def prepare(self, pb, z, desc):
        if desc.get("quantity"):
            u = _u()
            return {"shift": (desc["q"][0] / z.sample_rate).to(u.us)}
        arr = np.array(desc["vals"], dtype=np.float64).reshape(desc["shape"])
        if desc["shape"] == []:
            v = desc["vals"][0]
            return {"shift": int(v) if float(v).is_integer() and desc["aslist"] else float(v)}
        if desc["aslist"]:
            return {"shift": arr.tolist()}
        return {"shift": arr}

    def call(self, pb, z, args, desc):
        return pb.time_shift(z, args["shift"], crop=desc["crop"])


@register
class FreqShift(Op):
    name = "freq_shift"
    fft_based = True

    def applies(self, info):
        return info.is_radio

    def gen(self, tape, info):
        kind = tape.weighted([4, 2, 2, 1], "fshift.kind")
        ss = info.sample_shape
        if kind == 1:
            shp = (ss[0],)
        elif kind == 2:
            shp = tuple(ss)
        elif kind == 3:
            shp = "bad"
        else:
            shp = ()
        if shp == "bad":
            return {"bad": ["unit", "toomany", "float"][tape.draw(3, "fshift.bad")]}
        # fractions of the sample rate
        fr = [0.25, -0.125, 0.0, 0.5, -0.3, 1.5, 1.0 / 3, -1.0, 0.01]
        cnt = int(np.prod(shp)) if shp else 1
        return {"frac": [fr[tape.draw(len(fr), f"fshift.v{i}")] for i in range(cnt)],
                "shape": list(shp), "unit": ["Hz", "kHz", "MHz"][tape.draw(3, "fshift.unit")]}

    def prepare(self, pb, z, desc):
        u = _u()
        if "bad" in desc:
            if desc["bad"] == "unit":
                return {"shift": 1.0 * u.s}
            if desc["bad"] == "float":
                return {"shift": 0.25}
            return {"shift": np.ones(z.shape[1:] + (1,)) * u.Hz}
        sr = z.sample_rate.to_value(u.Hz)
        arr = np.array(desc["frac"], dtype=np.float64).reshape(desc["shape"]) * sr
        q = (arr * u.Hz).to(getattr(u, desc["unit"]))
        return {"shift": q}

    def call(self, pb, z, args, desc):
        return pb.freq_shift(z, args["shift"])


@register
class Snippet(Op):
    name = "snippet"
    fft_based = True

    def gen(self, tape, info):
        n = info.n
        kind = tape.weighted([3, 3, 2, 2, 1], "snip.kind")  # int, float, quantity, time, oob
        t_int = tape.draw(max(n, 1), "snip.t")
        frac = [0.0, 0.5, 0.25, 0.999, 1e-7][tape.draw(5, "snip.frac")] if kind in (1, 2, 3) else 0.0
        ln = tape.draw(max(n - t_int, 1), "snip.n")
        return {"kind": ["int", "float", "quantity", "time", "oob"][kind], "t": t_int,
                "frac": frac, "n": ln}

    def prepare(self, pb, z, desc):
        u = _u()
        k = desc["kind"]
        t = desc["t"] + desc["frac"]
        if k == "int":
            return {"t": int(desc["t"])}
        if k == "float":
            return {"t": float(t)}
        if k == "quantity":
            return {"t": (t / z.sample_rate).to(u.ms)}
        if k == "time":
            if z.start_time is None:
                from astropy.time import Time
                return {"t": Time("2020-01-01T00:00:00", format="isot", precision=9)}
            return {"t": z.start_time + (t / z.sample_rate)}
        return {"t": len(z) + 1}

    def call(self, pb, z, args, desc):
        return pb.snippet(z, args["t"], desc["n"])


@register
class FastLen(Op):
    name = "fast_len"

    def call(self, pb, z, args, desc):
        return pb.fast_len(z)


@register
class Concat(Op):
    name = "concat"

    def gen(self, tape, info):
        axis = "time"
        if info.is_radio and info.nchan >= 2 and tape.chance(1, 3, "concat.axis"):
            axis = "freq"
        n = info.n if axis == "time" else info.nchan
        parts = tape.composition(n, "concat.parts", maxparts=3) if n > 0 else (0,)
        if len(parts) == 1 and n >= 2 and not tape.chance(1, 4, "concat.single"):
            a = 1 + tape.draw(n - 1, "concat.cut")
            parts = (a, n - a)
        if axis == "time" and tape.chance(1, 6, "concat.emptypiece"):
            # an empty piece at either end (valid: zero-length signals are contiguous)
            parts = ((0,) + tuple(parts)) if tape.draw(2, "concat.emptyside") else (tuple(parts) + (0,))
        bad = tape.weighted([8, 1, 1], "concat.bad")   # ok / swapped order / gap
        return {"axis": axis, "parts": list(parts), "bad": ["ok", "swap", "gap"][bad],
                "axis_form": tape.draw(2, "concat.axform")}

    def prepare(self, pb, z, desc):
        pieces = []
        off = 0
        for p in desc["parts"]:
            if desc["axis"] == "time":
                pieces.append(z[off:off + p])
            else:
                pieces.append(z[:, off:off + p])
            off += p
        if desc["bad"] == "swap" and len(pieces) > 1:
            pieces = pieces[::-1]
        if desc["bad"] == "gap" and len(pieces) > 1 and desc["axis"] == "time" and len(pieces[0]) > 1:
            pieces[0] = pieces[0][:-1]
        return {"signals": pieces}

    def call(self, pb, z, args, desc):
        if desc["axis"] == "time":
            ax = [0, "time"][desc["axis_form"]]
        else:
            ax = [1, "freq"][desc["axis_form"]]
        return pb.concatenate(args["signals"], axis=ax)


# (the last two keep delays moderate for bands that lie next to or across 0 Hz)
DMS = [0.01, 0.0, 0.05, 0.001, 0.2, -0.01, 1e-9, 3e-9]


def _ref_freq(z, kind):
    u = _u()
    if kind == "none":
        return None
    if kind == "center":
        return z.center_freq
    if kind == "above":
        return (z.max_freq + 2 * z.bandwidth).to(u.GHz)
    if kind == "below":
        return (z.min_freq - z.bandwidth).to(u.MHz)
    if kind == "inband":
        return z.center_freq + z.bandwidth / 4
    if kind == "far":
        return (z.center_freq * 1.5).to(u.MHz)
    raise ValueError(kind)


REFS = ["none", "center", "above", "below", "inband", "far"]


@register
class CoherentDD(Op):
    name = "coherent_dd"
    fft_based = True

    def applies(self, info):
        return info.is_radio

    def gen(self, tape, info):
        return {"dm": DMS[tape.draw(len(DMS), "cdd.dm")],
                "ref": REFS[tape.draw(len(REFS), "cdd.ref")],
                "chirp": ["none", "numpy", "dask"][tape.weighted([4, 1, 1], "cdd.chirp")]}

    def prepare(self, pb, z, desc):
        a = {"dm": pb.DM(desc["dm"]), "ref": _ref_freq(z, desc["ref"])}
        if desc["chirp"] != "none" and isinstance(z, pb.BasebandSignal):
            # a user-supplied chirp: computed from the NumPy geometry of z
            import astropy.units as u
            ref = a["ref"] if a["ref"] is not None else z.center_freq
            ch = np.stack([a["dm"].chirp_function(len(z), z.dt, f, ref, False)
                           for f in z.channel_freqs], axis=1)
            import dask.array as da
            if desc["chirp"] == "dask" and isinstance(z.data, da.Array):
                # (the NumPy twin always gets the NumPy chirp: it must stay eager)
                ch = da.from_array(ch, chunks=(-1, 1))
            a["chirp"] = ch
        return a

    def call(self, pb, z, args, desc):
        kw = {}
        if args.get("ref") is not None:
            kw["ref_freq"] = args["ref"]
        if "chirp" in args:
            kw["chirp"] = args["chirp"]
        return pb.coherent_dedispersion(z, args["dm"], **kw)


@register
class IncoherentDD(Op):
    name = "incoherent_dd"

    def applies(self, info):
        return info.is_radio

    def gen(self, tape, info):
        return {"dm": DMS[tape.draw(len(DMS), "idd.dm")],
                "ref": REFS[tape.draw(len(REFS), "idd.ref")]}

    def prepare(self, pb, z, desc):
        return {"dm": pb.DM(desc["dm"]), "ref": _ref_freq(z, desc["ref"])}

    def call(self, pb, z, args, desc):
        kw = {}
        if args.get("ref") is not None:
            kw["ref_freq"] = args["ref"]
        return pb.incoherent_dedispersion(z, args["dm"], **kw)


@register
class ChirpFromSignal(Op):
    name = "chirp_from_signal"
    terminal = True

    def applies(self, info):
        return info.is_radio

    def gen(self, tape, info):
        return {"dm": DMS[tape.draw(len(DMS), "chirp.dm")],
                "ref": REFS[tape.draw(len(REFS), "chirp.ref")]}

    def prepare(self, pb, z, desc):
        return {"dm": pb.DM(desc["dm"]), "ref": _ref_freq(z, desc["ref"])}

    def call(self, pb, z, args, desc):
        return args["dm"].chirp_from_signal(z, ref_freq=args["ref"])


@register
class ChirpFunction(Op):
    """The public DM.chirp_function for one channel (NumPy array vs delayed Dask array)."""
    name = "chirp_function"
    terminal = True

    def applies(self, info):
        return info.is_radio and info.n > 0

    def gen(self, tape, info):
        return {"dm": DMS[tape.draw(len(DMS), "chf.dm")],
                "ref": REFS[1 + tape.draw(len(REFS) - 1, "chf.ref")],
                "chan": tape.draw(info.nchan, "chf.chan")}

    def prepare(self, pb, z, desc):
        return {"dm": pb.DM(desc["dm"]), "ref": _ref_freq(z, desc["ref"])}

    def call(self, pb, z, args, desc):
        import dask.array as da
        f = z.channel_freqs[desc["chan"]]
        return args["dm"].chirp_function(len(z), z.dt, f, args["ref"],
                                         use_dask=isinstance(z.data, da.Array))


def _scale_add(x, k=2.0, b=1.0):
    return x * k + b


def _power(x):
    return x.real ** 2 + x.imag ** 2


_ST_CACHE = {}


def _wrapped(pb, name):
    if (id(pb), name) not in _ST_CACHE:
        _ST_CACHE[(id(pb), name)] = pb.signal_transform({"scale_add": _scale_add, "power": _power}[name])
    return _ST_CACHE[(id(pb), name)]


@register
class SigTransform(Op):
    name = "signal_transform"

    def gen(self, tape, info):
        f = "scale_add"
        if info.is_baseband and tape.chance(1, 3, "st.power"):
            f = "power"
        return {"f": f, "k": [2.0, -1.5, 0.5][tape.draw(3, "st.k")],
                "meta": tape.chance(1, 3, "st.meta"),
                "dkw": tape.chance(1, 3, "st.dkw")}

    def prepare(self, pb, z, desc):
        a = {"signal_kwargs": {}, "dask_kwargs": {}}
        if desc["meta"]:
            a["signal_kwargs"] = {"meta": {"tag": [1, 2]}}
        if desc["dkw"]:
            probe = np.zeros((1,), z.dtype)
            out = _power(probe) if desc["f"] == "power" else _scale_add(probe, k=desc["k"])
            a["dask_kwargs"] = {"meta": np.array((), dtype=out.dtype)}
        return a

    def call(self, pb, z, args, desc):
        f = _wrapped(pb, desc["f"])
        kw = {"signal_kwargs": args["signal_kwargs"], "dask_kwargs": args["dask_kwargs"]}
        if desc["f"] == "power":
            return f(z, signal_type=pb.IntensitySignal, **kw)
        return f(z, k=desc["k"], **kw)


@register
class STFT(Op):
    name = "stft"
    fft_based = True

    def applies(self, info):
        return info.is_radio

    def gen(self, tape, info):
        return {"nperseg": [4, 2, 3, 8, 1, 5][tape.draw(6, "stft.nperseg")]}

    def call(self, pb, z, args, desc):
        return pb.contrib.stft(z, nperseg=desc["nperseg"])


@register
class ISTFT(Op):
    name = "istft"
    fft_based = True

    def applies(self, info):
        return info.is_radio

    def gen(self, tape, info):
        divs = [d for d in (2, 4, 1, 3, 8, 6) if info.nchan and info.nchan % d == 0]
        cand = divs + [5]
        return {"nperseg": cand[tape.draw(len(cand), "istft.nperseg")]}

    def call(self, pb, z, args, desc):
        return pb.contrib.istft(z, nperseg=desc["nperseg"])


FFT_FUNCS = ["fft", "ifft", "rfft", "irfft", "fft2", "ifft2", "rfft2", "irfft2", "fftn",
             "ifftn", "rfftn", "irfftn", "hfft", "ihfft"]


@register
class FFTFunc(Op):
    name = "fftfunc"
    terminal = True
    fft_based = True

    def gen(self, tape, info):
        name = FFT_FUNCS[tape.draw(len(FFT_FUNCS), "fft.name")]
        d = {"name": name}
        if name.endswith("2"):
            if info.ndim >= 2:
                a = tape.draw(info.ndim - 1, "fft.ax0")
                d["axes"] = [a, a + 1]
            else:
                d["axes"] = [0, 1]
        elif name.endswith("n"):
            d["axes"] = [tape.draw(info.ndim, "fft.ax")]
            if info.ndim >= 2 and tape.chance(1, 2, "fft.n2"):
                d["axes"] = [0, 1]
            if tape.chance(1, 4, "fft.s_only"):
                # SciPy: `s` without `axes` means the LAST len(s) axes
                k = 1 + tape.draw(min(info.ndim, 2), "fft.s_len")
                d.pop("axes")
                d["s"] = [max(2, info.shape[info.ndim - k + i] + [0, 1, -1][tape.draw(3, f"fft.s{i}")])
                          for i in range(k)]
        else:
            d["axis"] = tape.draw(info.ndim, "fft.ax")
            if tape.chance(1, 4, "fft.neg"):
                d["axis"] = d["axis"] - info.ndim
            if tape.chance(1, 4, "fft.n"):
                L = info.shape[d["axis"]]
                d["n"] = max(1, L + [-1, 1, 3, -2][tape.draw(4, "fft.nval")])
        d["norm"] = [None, "ortho", "forward", "backward"][tape.weighted([5, 1, 1, 1], "fft.norm")]
        return d

    def call(self, pb, z, args, desc):
        f = getattr(pb.fft, desc["name"])
        x = z.data
        real_in = desc["name"] in ("rfft", "rfft2", "rfftn", "ihfft")
        if real_in and np.dtype(x.dtype).kind == "c":
            x = x.real
        kw = {}
        if desc.get("norm") is not None:
            kw["norm"] = desc["norm"]
        if "n" in desc:
            kw["n"] = desc["n"]
        if "s" in desc:
            return f(x, s=tuple(desc["s"]), **kw)
        if "axes" in desc:
            return f(x, axes=tuple(desc["axes"]), **kw)
        return f(x, axis=desc["axis"], **kw)


@register
class Container(Op):
    name = "container"

    def gen(self, tape, info):
        k = ["to_dask_array", "rechunk_default", "rechunk", "persist", "compute"][
            tape.weighted([2, 2, 3, 2, 1], "cont.kind")]
        d = {"kind": k}
        if k == "rechunk":
            d["chunks"] = [list(tape.composition(n, f"cont.ax{i}", maxparts=3)) if i else [n]
                           for i, n in enumerate(info.shape)]
            if tape.chance(1, 5, "cont.tchunk") and info.n >= 2:
                d["chunks"][0] = list(tape.composition(info.n, "cont.t", maxparts=3))
            # other ways to say it: a dict, plain ints, -1 / "auto" per axis
            d["form"] = ["tuples", "dict", "ints", "auto"][tape.weighted([4, 1, 1, 1], "cont.form")]
        return d

    def call(self, pb, z, args, desc):
        k = desc["kind"]
        if k == "to_dask_array":
            return z.to_dask_array()
        if k == "rechunk_default":
            return z.rechunk()
        if k == "rechunk":
            if 0 in z.shape:
                return z.rechunk()
            form = desc.get("form", "tuples")
            if form == "dict":
                return z.rechunk({i: tuple(c) for i, c in enumerate(desc["chunks"]) if i})
            if form == "ints":
                return z.rechunk(tuple(max(c) for c in desc["chunks"]))
            if form == "auto":
                return z.rechunk((-1,) + ("auto",) * (len(desc["chunks"]) - 1), balance=True)
            return z.rechunk(tuple(tuple(c) for c in desc["chunks"]))
        if k == "persist":
            return z.persist(**args.get("sched_kw", {}))
        if k == "compute":
            return z.compute(**args.get("sched_kw", {}))
        raise ValueError(k)


def applicable(info, engine):
    names = []
    for name, op in OPS.items():
        if engine == "A" and op.numpy_only:
            continue
        if op.applies(info):
            names.append(name)
    return names
