"""Replay files: write, load, re-execute, confirm in a fresh interpreter."""

import json
import os
import subprocess
import sys

from . import core, run as runmod


def versions():
    import numpy, scipy, dask, astropy, baseband
    return {"python": sys.version.split()[0], "numpy": numpy.__version__,
            "scipy": scipy.__version__, "dask": dask.__version__,
            "astropy": astropy.__version__, "baseband": baseband.__version__}


def write_replay(prop, scenario, tier, verif_seed, orig, tape, final, orig_len, shrink_runs,
                 group_size):
    d = os.path.join(core.VERIF, "replays")
    os.makedirs(d, exist_ok=True)
    path = os.path.join(d, f"{prop}-{scenario}-{orig['run_seed']}.json")
    doc = {
        "property": prop, "scenario": scenario, "tier": tier, "verif_seed": int(verif_seed),
        "index": orig["index"], "run_seed": orig["run_seed"],
        "tape": list(tape), "original_tape_len": orig_len, "shrink_runs": shrink_runs,
        "runs_with_same_violation_in_batch": group_size,
        "violation": final["violation"], "digest": final["digest"],
        "versions": versions(),
        "case": final.get("sample"),
        "trace": final.get("trace"),
        "schedule_trace_tail": final.get("sched_trace"),
        "events_tail": (final.get("events") or [])[-60:],
        "how_to_replay": f"cd /verif && ./check {prop} --replay {path}",
    }
    with open(path, "w") as f:
        json.dump(doc, f, indent=1, default=str)
    return path


def load(path):
    with open(path) as f:
        return json.load(f)


def replay(path, quiet=False):
    """Re-execute a replay file in this process. Returns (reproduced, result, doc)."""
    doc = load(path)
    res = runmod.run_tape(doc["property"], doc["scenario"], doc["tape"], tier=doc["tier"],
                          keep_events=True)
    v, w = res.get("violation"), doc["violation"]
    ok = bool(v) and v["kind"] == w["kind"] and v["site"] == w["site"] \
        and res["digest"] == doc["digest"]
    return ok, res, doc


def confirm_fresh(prop, path):
    """Replay in a fresh interpreter and require the same violation and digest."""
    env = dict(os.environ)
    env.pop("PYTHONHASHSEED", None)       # ./check re-execs itself under the fixed hash seed
    cmd = [sys.executable, os.path.join(core.VERIF, "check"), prop, "--replay", path,
           "--machine"]
    try:
        p = subprocess.run(cmd, env=env, capture_output=True, text=True, timeout=600)
    except subprocess.TimeoutExpired:
        return False, "timeout"
    if p.returncode == 1 and "REPRODUCED" in p.stdout:
        return True, ""
    return False, f"exit={p.returncode} out={p.stdout[-300:]} err={p.stderr[-300:]}"
