"""Tape minimisation: delete blocks, zero entries, lower entries; keep a candidate
iff the same violation (kind, site) recurs. Pure function of (code, tape)."""

import time

from . import run as runmod


def same(res, key):
    v = res.get("violation")
    return bool(v) and (v["kind"], v["site"]) == key


def shrink(prop, scenario, tape_values, key, tier="quick", max_runs=400, max_seconds=120,
           log=None):
    t0 = time.time()
    best = list(tape_values)
    nruns = 0

    def attempt(cand):
        nonlocal nruns, best
        if nruns >= max_runs or time.time() - t0 > max_seconds:
            return False
        nruns += 1
        res = runmod.run_tape(prop, scenario, cand, tier=tier)
        if same(res, key):
            # the run's own recorded tape is canonical (no trailing unused values)
            rec = res["tape"]
            best = rec if len(rec) <= len(cand) else cand
            return True
        return False

    # canonicalise
    attempt(best)
    improved = True
    while improved and nruns < max_runs and time.time() - t0 <= max_seconds:
        improved = False
        # 1. zero blocks / entries
        size = max(len(best) // 4, 1)
        while size >= 1:
            i = 0
            while i < len(best):
                if any(best[i:i + size]):
                    cand = best[:i] + [0] * len(best[i:i + size]) + best[i + size:]
                    if attempt(cand):
                        improved = True
                i += size
                if nruns >= max_runs:
                    break
            size //= 2
        # 2. truncate tail (tape returns 0 when exhausted)
        n = len(best)
        cut = n // 2
        while cut >= 1:
            if len(best) > cut and attempt(best[:len(best) - cut]):
                improved = True
            else:
                cut //= 2
        # 3. delete blocks
        size = max(len(best) // 4, 1)
        while size >= 1:
            i = 0
            while i + size <= len(best):
                cand = best[:i] + best[i + size:]
                if attempt(cand):
                    improved = True
                else:
                    i += size
                if nruns >= max_runs:
                    break
            size //= 2
        # 4. lower single entries
        for i in range(len(best)):
            v = best[i] if i < len(best) else 0
            if v > 1:
                for nv in (1, v // 2, v - 1):
                    if nv < v and i < len(best) and attempt(best[:i] + [nv] + best[i + 1:]):
                        improved = True
                        break
            if nruns >= max_runs:
                break
    if log:
        log(f"shrink: {len(tape_values)} -> {len(best)} entries in {nruns} runs, "
            f"{time.time() - t0:.1f}s")
    return best, nruns
