"""Engine A — simulated Dask cluster.

SimScheduler implements Dask's `get(dsk, keys, **kw)` interface and is passed as
`scheduler=` to compute()/persist()/dask.compute(). Two modes:

 dask-core : the REAL dask.local.get_async (ready/waiting/running state machine,
             order(), data release) driven by a simulated executor. submit() only
             records the in-flight batch; whenever get_async would block on its
             result queue the tape decides which in-flight batch completes next
             (its tasks execute at that moment). W workers, Dask chunksize,
             transport (shared objects = threaded scheduler, cloudpickle round
             trips = multiprocess scheduler incl. its cull+fuse step, or mixed).
 free-order: a small graph walker: any dependency-respecting order chosen by the
             tape, task inputs shared or copied: the envelope of every conforming
             scheduler.

Faults: completion reordering; transport copy vs share; abort of the whole
computation after k completions; a task failing with an injected OSError.
"""

import contextlib
import re
import threading

import numpy as np

from .inject import SimInterrupt, SimOSError


class SimAbort(SimInterrupt):
    """Client interrupt of a running computation."""


_FIN = re.compile(r"finalize-hlgfinalizecompute-[0-9a-f]{32}")


def norm_key(k):
    """Dask names the final collection task with a fresh uuid per compute (also
    inside fused key names): strip it from the log."""
    if isinstance(k, str) and "finalize" in k:
        return _FIN.sub("finalize", k)
    return k


def _canon(d):
    return {k: d[k] for k in sorted(d, key=str)}


class _Fut:
    __slots__ = ("fn", "args", "cb", "_res", "seq", "done", "thread")

    def __init__(self, fn, args, seq):
        self.fn = fn
        self.args = args
        self.cb = None
        self._res = None
        self.seq = seq

    def add_done_callback(self, cb):
        self.cb = cb

    def result(self):
        return self._res


class _Queue:
    def __init__(self, getter=None):
        self.items = []
        self.getter = getter

    def put(self, x):
        self.items.append(x)


_TLS = threading.local()
_INSTALLED = {}


def _install():
    """Replace dask.local's result queue once per process by a dispatcher: a
    get_async running under a SimScheduler (thread-local) gets the simulated queue,
    anything else gets the real one. Needed because several simulated caller
    threads may be inside get_async at the same time."""
    import dask.local as dl
    if _INSTALLED.get("done"):
        return
    real_queue, real_get = dl.Queue, dl.queue_get

    def queue_factory(*a, **kw):
        g = getattr(_TLS, "getter", None)
        if g is not None:
            return _Queue(g)
        return real_queue(*a, **kw)

    def queue_get(q):
        if isinstance(q, _Queue):
            return q.getter(q)
        return real_get(q)

    dl.Queue, dl.queue_get = queue_factory, queue_get
    _INSTALLED["done"] = True


class SchedPlan:
    """Knobs of one simulated compute, all drawn from the tape."""

    def __init__(self, tape, label, allow_faults=True, tier="quick"):
        self.mode = ["dask-core", "free-order"][tape.weighted([3, 1], f"{label}.mode")]
        self.W = [1, 2, 3, 4, 8, 16][tape.draw(6, f"{label}.W")]
        # chunksize=-1 is not drawn: dask.local.fire_tasks divides by zero with it when nothing is
        # ready (a Dask defect unrelated to pulsarbat)
        self.chunksize = [1, 2, 6][tape.weighted([3, 1, 1], f"{label}.chunksize")]
        self.transport = ["shared", "pickled", "mixed"][tape.weighted([3, 2, 1], f"{label}.transport")]
        # probability (in 1/8) that a completion choice deviates from the default
        self.reorder = [0, 2, 4, 8][tape.draw(4, f"{label}.reorder")]
        # pre-emptive sub-mode: in-flight tasks run in parked threads and interleave at every
        # line of pulsarbat code they execute (as on the threaded scheduler)
        self.preempt = self.mode == "dask-core" and self.W > 1 and tape.chance(2, 3, f"{label}.preempt")
        self.preempt_switch = [4, 2, 8][tape.draw(3, f"{label}.pswitch")] if self.preempt else 0
        self.fault = "none"
        self.fault_at = 0
        if allow_faults:
            self.fault = ["none", "abort", "task_oserror"][tape.weighted([4, 1, 1], f"{label}.fault")]
            if self.fault != "none":
                self.fault_at = tape.draw(24, f"{label}.fault_at")

    def describe(self):
        return {"mode": self.mode, "W": self.W, "chunksize": self.chunksize,
                "transport": self.transport, "reorder_eighths": self.reorder,
                "preemptive": self.preempt,
                "fault": self.fault, "fault_at": self.fault_at}


class SimScheduler:
    def __init__(self, ctx, plan, label):
        self.ctx = ctx
        self.tape = ctx.tape
        self.plan = plan
        self.label = label
        self.completed = 0
        self.fault_fired = False
        self.order_log = []
        self.ntasks = 0
        self.max_inflight = 0
        self.calls = 0

    # -- transport --------------------------------------------------------
    def _mk_transport(self):
        import cloudpickle
        plan, tape, ctx, label = self.plan, self.tape, self.ctx, self.label

        if plan.transport == "shared":
            return (lambda x: x), (lambda x: x)

        def dumps(x):
            if plan.transport == "pickled" or tape.chance(1, 2, f"{label}.tx"):
                ctx.counts["transport_pickled"] += 1
                return ("pkl", cloudpickle.dumps(x))
            ctx.counts["transport_shared"] += 1
            return ("raw", x)

        def loads(p):
            tag, v = p
            return cloudpickle.loads(v) if tag == "pkl" else v

        return dumps, loads

    # -- the `get` interface ----------------------------------------------------
    def __call__(self, dsk, keys, **kwargs):
        self.calls += 1
        if hasattr(dsk, "__dask_graph__"):
            dsk = dsk.__dask_graph__()
        if self.plan.mode == "free-order":
            return self._free_order(dsk, keys)
        return self._dask_core(dsk, keys)

    # -- mode dask-core -----------------------------------------------------------
    def _dask_core(self, dsk, keys):
        import dask.local as dl
        from dask.utils import ensure_dict
        from dask.optimization import cull, fuse

        plan, ctx, tape, label = self.plan, self.ctx, self.tape, self.label
        dumps, loads = self._mk_transport()

        def pack_exception(e, dumps):
            return dumps((e, None))

        def raise_exception(exc, tb):
            raise exc

        # canonical insertion order: Dask's order()/cull()/fuse() break ties by dict
        # iteration order, which otherwise depends on how the graph was assembled
        dsk = _canon(ensure_dict(dsk))
        if plan.transport != "shared":
            # what dask.multiprocessing.get does before handing over to get_async
            d2, deps = cull(dsk, keys)
            d3, _ = fuse(_canon(d2), keys, {k: deps[k] for k in sorted(deps, key=str)})
            dsk = _canon(d3)
        inflight = []
        seq = [0]
        sim = self

        from . import sched as schedmod
        psched = None
        # only worth it when some task executes pulsarbat code (chirps, reads): all other
        # tasks are NumPy/SciPy/Dask kernels without pre-emption points
        has_lib_tasks = any(("transfer_function" in str(k)) or ("read_array" in str(k)) for k in dsk)
        if plan.preempt and has_lib_tasks and schedmod.ACTIVE["sched"] is None:
            psched = schedmod.Sched(ctx, switch_eighths=plan.preempt_switch, trace_files=("",),
                                    tool_id=5, step_mode=True)
            psched.start()
            ctx.probe("preemptive_task_execution")

        def submit(fn, *args):
            f = _Fut(fn, args, seq[0])
            seq[0] += 1
            inflight.append(f)
            sim.max_inflight = max(sim.max_inflight, len(inflight))
            if psched is not None:
                def body(t, f=f):
                    f._res = f.fn(*f.args)
                    f.done = True
                f.done = False
                f.thread = psched.spawn_started(f"task{f.seq}", body)
            return f

        def queue_get(q):
            if q.items:
                return q.items.pop(0)
            if not inflight:
                raise RuntimeError("simulated scheduler: get_async blocks with nothing in flight")
            # --- abort fault: the client interrupts the computation -------------
            if plan.fault == "abort" and not sim.fault_fired and sim.completed >= plan.fault_at:
                sim.fault_fired = True
                ctx.fault("abort_after_k_completions")
                if sim.completed and inflight:
                    ctx.probe("abort_with_tasks_in_flight")
                raise SimAbort(f"abort after {sim.completed} completions")
            # --- which in-flight batch completes next ---------------------------
            i = 0
            if len(inflight) > 1:
                if plan.reorder and tape.chance(plan.reorder, 8, f"{label}.dev"):
                    i = 1 + tape.draw(len(inflight) - 1, f"{label}.pick")
                ctx.sched(f"{label}.complete", i)
                if i:
                    ctx.switch_note(f"{label}: in-flight batch #{i} of {len(inflight)} completes first "
                                    f"({[str(a[0])[:40] for a in inflight[i].args[0]]})")
            else:
                ctx.steps += 1
            f = inflight[i]
            if psched is not None:
                # run the chosen batch's thread; it may interleave with the other in-flight
                # batches; whichever batch finishes first is the one that completes
                lines0 = psched.switches
                while True:
                    fin = [g for g in inflight if g.done]
                    if fin:
                        f = fin[0]
                        break
                    t = f.thread if not f.thread.done else next(
                        g.thread for g in inflight if not g.thread.done)
                    psched.resume(t)
                if psched.switches != lines0:
                    ctx.probe("tasks_interleaved_at_line_level")
                inflight.remove(f)
                keys_in_batch = [a[0] for a in f.args[0]]
                for k in keys_in_batch:
                    sim.completed += 1
                    sim.order_log.append(norm_key(k))
                return f
            inflight.pop(i)
            keys_in_batch = [a[0] for a in f.args[0]]
            # --- task failure fault --------------------------------------------
            if plan.fault == "task_oserror" and not sim.fault_fired \
                    and sim.completed >= plan.fault_at:
                sim.fault_fired = True
                ctx.fault("task_oserror")
                a = f.args[0][0]
                try:
                    raise SimOSError(5, "injected worker I/O error")
                except SimOSError as e:
                    f._res = [(a[0], pack_exception(e, a[2]), True)]
                return f
            f._res = f.fn(*f.args)
            for k in keys_in_batch:
                sim.completed += 1
                sim.order_log.append(norm_key(k))
            return f

        _install()
        prev = getattr(_TLS, "getter", None)
        _TLS.getter = queue_get
        try:
            return dl.get_async(submit, plan.W, dsk, keys, dumps=dumps, loads=loads,
                                pack_exception=pack_exception, raise_exception=raise_exception,
                                chunksize=plan.chunksize)
        finally:
            _TLS.getter = prev
            self.ntasks += self.completed
            if psched is not None:
                psched.finish()

    # -- mode free-order -----------------------------------------------------------
    def _free_order(self, dsk, keys):
        from dask._task_spec import convert_legacy_graph, DataNode
        from dask.core import flatten
        from dask.order import order
        from dask.local import nested_get
        import cloudpickle

        plan, ctx, tape, label = self.plan, self.ctx, self.tape, self.label
        dsk = convert_legacy_graph(_canon(dict(dsk)))
        want = set(flatten(keys)) if isinstance(keys, list) else {keys}
        # cull
        need, stack = set(), list(want)
        while stack:
            k = stack.pop()
            if k in need:
                continue
            need.add(k)
            stack.extend(dsk[k].dependencies)
        rank = order(dsk)
        deps = {k: set(dsk[k].dependencies) for k in need}
        dependents = {k: set() for k in need}
        for k, ds in deps.items():
            for d in ds:
                dependents[d].add(k)
        cache = {}
        done = set()
        remaining = set(need)
        while remaining:
            ready = sorted((k for k in remaining if deps[k] <= done), key=rank.get)
            if not ready:
                raise RuntimeError("free-order scheduler: cycle or missing dependency")
            if plan.fault == "abort" and not self.fault_fired and self.completed >= plan.fault_at:
                self.fault_fired = True
                ctx.fault("abort_after_k_completions")
                raise SimAbort(f"abort after {self.completed} completions")
            i = 0
            if len(ready) > 1:
                if plan.reorder and tape.chance(plan.reorder, 8, f"{label}.dev"):
                    i = 1 + tape.draw(len(ready) - 1, f"{label}.pick")
                ctx.sched(f"{label}.run", i)
            else:
                ctx.steps += 1
            k = ready[i]
            node = dsk[k]
            if plan.fault == "task_oserror" and not self.fault_fired \
                    and self.completed >= plan.fault_at and not isinstance(node, DataNode):
                self.fault_fired = True
                ctx.fault("task_oserror")
                raise SimOSError(5, "injected worker I/O error")
            data = {}
            for d in deps[k]:
                v = cache[d]
                if plan.transport == "pickled" or (
                        plan.transport == "mixed" and tape.chance(1, 2, f"{label}.tx")):
                    v = cloudpickle.loads(cloudpickle.dumps(v))
                    ctx.counts["transport_pickled"] += 1
                data[d] = v
            cache[k] = node(data)
            done.add(k)
            remaining.discard(k)
            self.completed += 1
            self.order_log.append(norm_key(k))
            # release intermediates nobody needs any more (early) -- or keep (late)
            for d in deps[k]:
                if d not in want and dependents[d] <= done and tape.chance(1, 2, f"{label}.rel"):
                    cache.pop(d, None)
        self.ntasks += self.completed
        return nested_get(keys, cache)


@contextlib.contextmanager
def tripwire(record):
    """Process-wide default scheduler that records any implicit computation."""
    import dask
    import dask.local

    def trip(dsk, keys, **kw):
        record.append("default-scheduler-invoked")
        return dask.local.get_sync(dsk, keys, **kw)

    with dask.config.set(scheduler=trip):
        yield
