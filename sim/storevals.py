"""The virtual file behind SimStoreReader."""

import numpy as np


def store_values(offset, n, sample_shape, dtype):
    """The virtual file: sample i, component j holds ((i*2654435761 + j*40503) % 1021) - 510."""
    i = (np.arange(offset, offset + n, dtype=np.int64) * 2654435761) % 1021
    m = int(np.prod(sample_shape)) if sample_shape else 1
    j = (np.arange(m, dtype=np.int64) * 40503) % 1021
    v = ((i[:, None] + j[None, :]) % 1021 - 510).astype(np.float64)
    dt = np.dtype(dtype)
    if dt.kind == "c":
        v = v + 1j * ((v * 7) % 13)
    return v.astype(dt).reshape((n,) + tuple(sample_shape))
