"""Choice tape: the single source of every decision taken in a simulated run.

Search mode: fed by random.Random(run_seed) and recorded.
Replay mode: fed by a list of integers; values are reduced modulo the range asked
for and the tape returns 0 when exhausted, so that *any* list of non-negative
integers is a valid tape (this is what makes shrinking by deletion possible).

Generators are written so that 0 is the simplest choice everywhere.
"""

import hashlib
import random


def derive_seed(verif_seed, prop, scenario, index):
    h = hashlib.sha256(f"{verif_seed}|{prop}|{scenario}|{index}".encode()).digest()
    return int.from_bytes(h[:8], "big")


class Tape:
    __slots__ = ("rng", "values", "pos", "rec", "keep_labels")

    def __init__(self, seed=None, values=None, keep_labels=True):
        if values is not None:
            self.values = list(values)
            self.rng = None
        else:
            self.values = None
            self.rng = random.Random(seed)
        self.pos = 0
        self.rec = []
        self.keep_labels = keep_labels

    # -- primitive -----------------------------------------------------
    def draw(self, n, label=""):
        """Integer in [0, n). n <= 1 consumes nothing."""
        if n <= 1:
            return 0
        if self.values is not None:
            v = self.values[self.pos] % n if self.pos < len(self.values) else 0
        else:
            v = self.rng.randrange(n)
        self.pos += 1
        self.rec.append((label, n, v))
        return v

    # -- helpers (all built on draw) ------------------------------------
    def chance(self, num, den, label=""):
        """True with probability num/den; 0 on the tape means False."""
        if num <= 0:
            return False
        if num >= den:
            return True
        return self.draw(den, label) >= den - num

    def choice(self, seq, label=""):
        return seq[self.draw(len(seq), label)]

    def weighted(self, weights, label=""):
        """Index i with probability weights[i]/sum; tape value 0 -> index 0."""
        total = sum(weights)
        v = self.draw(total, label)
        acc = 0
        for i, w in enumerate(weights):
            acc += w
            if v < acc:
                return i
        return len(weights) - 1

    def rint(self, lo, hi, label=""):
        """Integer in [lo, hi]; tape value 0 -> lo."""
        return lo + self.draw(hi - lo + 1, label)

    def composition(self, total, label="", maxparts=None):
        """A composition (ordered partition into positive parts) of `total`.
        Tape value 0 everywhere -> a single part."""
        if total <= 0:
            return (total,) if total == 0 else ()
        parts = []
        rest = total
        while rest > 0:
            if maxparts is not None and len(parts) == maxparts - 1:
                parts.append(rest)
                break
            # v == 0 -> take everything that is left
            v = self.draw(rest, label)
            take = rest if v == 0 else v
            parts.append(take)
            rest -= take
        return tuple(parts)

    def values_list(self):
        return [v for (_, _, v) in self.rec]
