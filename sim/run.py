"""One run = scenario(tape) -> result dict. Pure function of (code, tape)."""

import importlib
import traceback

from . import core
from .tape import Tape, derive_seed

# property -> list of (scenario name, module, function, weight)
SCENARIOS = {
    "C14": [("heap", "sim.heapsim", "run", 1)],
    "C09": [("twin", "sim.c09", "run", 5), ("readers", "sim.c09", "run_readers", 1)],
    "C11": [("files", "sim.c11", "run_files", 2), ("files_faults", "sim.c11", "run_files_faults", 2),
            ("store", "sim.c11", "run_store", 1), ("files_deep", "sim.c11", "run_files_deep", 1)],
}


def scenario_for(prop, index):
    sc = SCENARIOS[prop]
    total = sum(w for *_, w in sc)
    k = index % total
    for name, mod, fn, w in sc:
        if k < w:
            return name
        k -= w


def get_fn(prop, scenario):
    for name, mod, fn, w in SCENARIOS[prop]:
        if name == scenario:
            return getattr(importlib.import_module(mod), fn)
    raise KeyError((prop, scenario))


PRISTINE_SCENARIOS = {("C11", "files_deep")}


def execute(prop, scenario, seed=None, values=None, tier="quick", keep_events=False):
    """One run. Scenarios that depend on first-use state inside a dependency are executed in
    a fresh fork of the pristine zygote (see pristine.py); everything else in this process."""
    from . import pristine
    if (prop, scenario) in PRISTINE_SCENARIOS and not pristine.STATE["in_child"]:
        return pristine.run_in_pristine_child((prop, scenario),
                                              {"seed": seed, "values": values, "tier": tier,
                                               "keep_events": keep_events})
    pristine.ensure_zygote()          # while this process is still pristine
    return execute_direct(prop, scenario, seed=seed, values=values, tier=tier,
                          keep_events=keep_events)


def execute_direct(prop, scenario, seed=None, values=None, tier="quick", keep_events=False):
    """Returns a result dict; never raises for oracle violations."""
    from . import pristine
    pristine.STATE["runs_executed"] += 1
    tape = Tape(values=values) if values is not None else Tape(seed=seed)
    ctx = core.Ctx(tape, prop, scenario, tier=tier, keep_events=keep_events)
    fn = get_fn(prop, scenario)
    res = {"prop": prop, "scenario": scenario, "violation": None, "error": None,
           "discard": False}
    import gc
    import warnings
    saved_filters = list(warnings.filters)
    gc.collect()
    gc.disable()        # cyclic GC timing depends on process history; finalizers (a __del__ that
    try:                # closes a handle) must run at deterministic points only (refcounting)
        core.reset_run_state()
        fn(ctx)
    except core.Violation as v:
        res["violation"] = v.as_dict()
    except core.Discard:
        res["discard"] = True
    except Exception:
        res["error"] = traceback.format_exc()
    finally:
        gc.enable()
        warnings.filters[:] = saved_filters     # whatever a run did to them stays in that run
        if hasattr(warnings, "_filters_mutated"):
            warnings._filters_mutated()
    res.update(digest=ctx.digest(), sched_digest=ctx.sched_digest(), nsched=ctx.nsched,
               ndeviate=ctx.ndeviate, steps=ctx.steps, probes=dict(ctx.probes),
               faults=dict(ctx.faults), counts=dict(ctx.counts), sample=ctx.sample,
               nontrivial=bool(ctx.nontrivial), trace=ctx.trace,
               sched_trace=ctx.sched_trace[-300:] if keep_events else None, tape=tape.values_list(),
               events=ctx.events if keep_events else None)
    return res


def run_seeded(prop, index, verif_seed, tier="quick", keep_events=False):
    scenario = scenario_for(prop, index)
    run_seed = derive_seed(verif_seed, prop, scenario, index)
    res = execute(prop, scenario, seed=run_seed, tier=tier, keep_events=keep_events)
    res["run_seed"] = run_seed
    res["index"] = index
    return res


def run_tape(prop, scenario, values, tier="quick", keep_events=False):
    return execute(prop, scenario, values=list(values), tier=tier, keep_events=keep_events)
