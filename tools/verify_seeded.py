#!/venv/bin/python
"""tools/verify_seeded.py <seed-id> <worktree> <k> <property>
Confirms an independently produced breaking change: patch applies to the clean worktree, the
repository's test suite result is unchanged (217 pass), the demonstration passes without the
change and fails with it. On success files it under /verif/seeded/<seed-id>/."""
import json, os, shutil, subprocess, sys

sid, wt, k, prop = sys.argv[1:5]
out = os.path.join(wt, "_out")
patch = os.path.join(out, f"change{k}.diff")
demo = os.path.join(out, f"demo{k}.py")
note = os.path.join(out, f"note{k}.txt")
env = dict(os.environ, PYTHONPATH=wt)


def sh(cmd, **kw):
    return subprocess.run(cmd, capture_output=True, text=True, **kw)


def suite():
    r = sh(["/venv/bin/python", "-m", "pytest", "-q", "-p", "no:cacheprovider", "--timeout=900",
            ], cwd=wt, env=env)
    tail = r.stdout.strip().splitlines()[-1] if r.stdout.strip() else r.stderr[-200:]
    return r.returncode, tail


def rundemo():
    r = sh(["/venv/bin/python", demo, wt], env=env, cwd="/")
    return r.returncode, (r.stdout + r.stderr)[-400:]


assert sh(["git", "-C", wt, "status", "--porcelain", "--untracked-files=no"]).stdout.strip() == "", "worktree dirty"
res = {"seed": sid, "property": prop}
res["demo_clean"] = rundemo()
assert sh(["git", "-C", wt, "apply", patch]).returncode == 0, "patch does not apply"
try:
    res["suite_with_change"] = suite()
    res["demo_with_change"] = rundemo()
finally:
    sh(["git", "-C", wt, "checkout", "--", "."])
ok = res["demo_clean"][0] == 0 and res["demo_with_change"][0] != 0 \
    and "217 passed" in res["suite_with_change"][1] and "7 failed" in res["suite_with_change"][1]
print(json.dumps(res, indent=1))
print("CONFIRMED" if ok else "NOT CONFIRMED")
if ok:
    d = os.path.join("/verif/seeded", sid)
    os.makedirs(d, exist_ok=True)
    shutil.copy(patch, os.path.join(d, "patch.diff"))
    shutil.copy(demo, os.path.join(d, "demo.py"))
    meta = {"property": prop, "origin": "independent sub-agent given only the property text and a scratch worktree",
            "needs_to_manifest": open(note).read() if os.path.exists(note) else "",
            "confirmed": {"suite_with_change": res["suite_with_change"][1],
                          "demo_without_change": "exit 0", "demo_with_change": "exit %d" % res["demo_with_change"][0],
                          "how": f"tools/verify_seeded.py {sid} <scratch worktree> {k} {prop}: git apply; full pytest run: 217 passed, the same 7 pre-existing failures in test_phase_predictor; demo with and without the change"},
            "detected_by": None}
    json.dump(meta, open(os.path.join(d, "meta.json"), "w"), indent=1)
