#!/venv/bin/python
"""Mechanical mutation run (sensitivity evidence beyond the hand-made and seeded changes).

For every AST-level mutant of the anchored source files:
  1. copy /repo to a scratch directory, write the mutated file;
  2. run the repository's test suite there; a mutant that changes the suite's result is
     'killed by tests' and dropped (the brief asks for changes that pass the existing tests);
  3. run the three quick checks (reduced budgets) with PB_REPO=<scratch>; record which check,
     if any, reports a violation.
Writes tools/mutation_results.json. Survivors of both are listed for manual triage: a survivor
either does not break any of the three claimed properties (equivalent / other property) or is
a miss.

usage: tools/mutation_run.py [--files f1,f2] [--max N] [--budget C09=6000,C11=2500,C14=500]
"""
import argparse
import ast
import copy
import json
import os
import shutil
import subprocess
import sys
import tempfile
import time

HERE = os.path.dirname(os.path.dirname(os.path.abspath(__file__)))
FILES = ["pulsarbat/readers/_base.py", "pulsarbat/readers/_baseband_readers.py",
         "pulsarbat/transforms/transforms.py", "pulsarbat/transforms/dedispersion.py",
         "pulsarbat/core.py", "pulsarbat/contrib/misc.py", "pulsarbat/utils.py", "pulsarbat/fft.py"]

CMP = {ast.Gt: ast.GtE, ast.GtE: ast.Gt, ast.Lt: ast.LtE, ast.LtE: ast.Lt, ast.Eq: ast.NotEq,
       ast.NotEq: ast.Eq, ast.Is: ast.IsNot, ast.IsNot: ast.Is}
BIN = {ast.Add: ast.Sub, ast.Sub: ast.Add, ast.Mult: ast.Div, ast.Div: ast.Mult,
       ast.FloorDiv: ast.Div, ast.Mod: ast.FloorDiv}
DROP_CALLS = {"conj", "copy", "round", "astype", "transpose", "flip", "ceil", "floor"}


class Collector(ast.NodeVisitor):
    """Enumerate mutation sites as (kind, node path index)."""

    def __init__(self):
        self.sites = []
        self.idx = 0
        self.in_doc = False

    def generic_visit(self, node):
        i = self.idx
        self.idx += 1
        node._mid = i
        if isinstance(node, ast.Compare) and len(node.ops) == 1 and type(node.ops[0]) in CMP:
            self.sites.append(("cmp", i, node.lineno))
        elif isinstance(node, ast.BinOp) and type(node.op) in BIN:
            self.sites.append(("bin", i, node.lineno))
        elif isinstance(node, ast.Constant) and isinstance(node.value, int) \
                and not isinstance(node.value, bool) and node.value in (0, 1, 2):
            self.sites.append(("const", i, node.lineno))
        elif isinstance(node, ast.Constant) and isinstance(node.value, bool):
            self.sites.append(("bool", i, node.lineno))
        elif isinstance(node, ast.UnaryOp) and isinstance(node.op, (ast.Not, ast.USub)):
            self.sites.append(("unary", i, node.lineno))
        elif isinstance(node, ast.Call) and isinstance(node.func, ast.Attribute) \
                and node.func.attr in DROP_CALLS:
            self.sites.append(("dropcall", i, node.lineno))
        elif isinstance(node, ast.If):
            self.sites.append(("ifnot", i, node.lineno))
        super().generic_visit(node)


class Mutator(ast.NodeTransformer):
    def __init__(self, kind, target):
        self.kind, self.target = kind, target
        self.done = False

    def generic_visit(self, node):
        node = super().generic_visit(node)
        if getattr(node, "_mid", None) != self.target or self.done:
            return node
        self.done = True
        k = self.kind
        if k == "cmp":
            node.ops = [CMP[type(node.ops[0])]()]
        elif k == "bin":
            node.op = BIN[type(node.op)]()
        elif k == "const":
            node = ast.copy_location(ast.Constant({0: 1, 1: 2, 2: 1}[node.value]), node)
        elif k == "bool":
            node = ast.copy_location(ast.Constant(not node.value), node)
        elif k == "unary":
            node = node.operand
        elif k == "dropcall":
            node = node.func.value            # x.conj() -> x
        elif k == "ifnot":
            node.test = ast.copy_location(ast.UnaryOp(ast.Not(), node.test), node.test)
        return node


def mutants_of(path, src):
    tree = ast.parse(src)
    c = Collector()
    c.visit(tree)
    for kind, idx, line in c.sites:
        t2 = copy.deepcopy(tree)
        c2 = Collector()
        c2.visit(t2)
        m = Mutator(kind, idx)
        t3 = m.visit(t2)
        if not m.done:
            continue
        ast.fix_missing_locations(t3)
        try:
            yield kind, line, ast.unparse(t3)
        except Exception:
            continue


def is_docstring_or_all(line_src):
    return False


def run(cmd, env=None, cwd=None, timeout=1800):
    try:
        p = subprocess.run(cmd, env=env, cwd=cwd, capture_output=True, text=True, timeout=timeout)
        return p.returncode, p.stdout, p.stderr
    except subprocess.TimeoutExpired:
        return 124, "", "timeout"


def main():
    ap = argparse.ArgumentParser()
    ap.add_argument("--files", default=",".join(FILES))
    ap.add_argument("--max", type=int, default=10 ** 9)
    ap.add_argument("--stride", type=int, default=1)
    ap.add_argument("--budget", default="C09=6000,C11=2500,C14=500")
    ap.add_argument("--out", default=os.path.join(HERE, "tools", "mutation_results.json"))
    a = ap.parse_args()
    budget = dict(x.split("=") for x in a.budget.split(","))
    results = []
    n = 0
    for rel in a.files.split(","):
        src = open(os.path.join("/repo", rel)).read()
        orig_lines = src.splitlines()
        for mi, (kind, line, msrc) in enumerate(mutants_of(rel, src)):
            if mi % a.stride:
                continue
            if n >= a.max:
                break
            n += 1
            scratch = tempfile.mkdtemp(prefix="pbmutrun_")
            try:
                dst = os.path.join(scratch, "repo")
                shutil.copytree("/repo", dst, ignore=shutil.ignore_patterns(".git", "__pycache__", "docs"))
                with open(os.path.join(dst, rel), "w") as f:
                    f.write(msrc)
                env = dict(os.environ, PYTHONPATH=dst)
                t0 = time.time()
                rc, out, err = run(["/venv/bin/python", "-m", "pytest", "-q", "-p", "no:cacheprovider",
                                    "--timeout=300", "-x", "--deselect",
                                    "tests/test_phase_predictor.py"], env=env, cwd=dst, timeout=900)
                tail = out.strip().splitlines()[-1] if out.strip() else err[-100:]
                rec = {"file": rel, "kind": kind, "line": line,
                       "source_line": orig_lines[line - 1].strip() if line <= len(orig_lines) else "",
                       "tests": tail}
                if rc != 0 or "215 passed" not in tail:
                    rec["status"] = "killed_by_tests"
                    results.append(rec)
                    print(f"[{n}] {rel}:{line} {kind}: killed by tests", flush=True)
                    continue
                rec["status"] = "survived_tests"
                rec["checks"] = {}
                order = ["C11", "C09", "C14"] if "readers" in rel else (
                    ["C14", "C09", "C11"] if rel.endswith(("core.py", "misc.py", "utils.py")) else ["C09", "C14", "C11"])
                for prop in order:
                    runs = budget[prop]
                    env2 = dict(os.environ, PB_REPO=dst)
                    rc2, out2, err2 = run([os.path.join(HERE, "check"), prop, "--runs", runs, "--no-evidence"],
                                          env=env2, cwd=HERE, timeout=2400)
                    viol = [l.strip() for l in out2.splitlines() if l.startswith("  ") and "@" in l][:2]
                    rec["checks"][prop] = {"exit": rc2, "violations": viol}
                    if rc2 == 1:
                        break
                caught = [p for p, v in rec["checks"].items() if v["exit"] == 1]
                errs = [p for p, v in rec["checks"].items() if v["exit"] not in (0, 1)]
                rec["status"] = "caught:" + caught[0] if caught else ("harness_error" if errs else "missed")
                results.append(rec)
                print(f"[{n}] {rel}:{line} {kind} `{rec['source_line'][:60]}`: {rec['status']} "
                      f"({time.time() - t0:.0f}s)", flush=True)
            finally:
                shutil.rmtree(scratch, ignore_errors=True)
            with open(a.out, "w") as f:
                json.dump(results, f, indent=1)
    s = {}
    for r in results:
        k = r["status"].split(":")[0]
        s[k] = s.get(k, 0) + 1
    print("SUMMARY", s)


if __name__ == "__main__":
    sys.exit(main())
