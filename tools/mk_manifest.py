#!/venv/bin/python
"""Regenerate /verif/MANIFEST.json from sim/config.py (single source of truth)."""
import json, os, sys
HERE = os.path.dirname(os.path.dirname(os.path.abspath(__file__)))
sys.path.insert(0, HERE)
from sim.config import CONFIG, NOT_APPLICABLE, MANIFEST_TEXT

checks = []
for pid in sorted(CONFIG):
    c = CONFIG[pid]
    checks.append({
        "property_id": pid,
        "quick_cmd": f"timeout 1500 ./check {pid} --tier quick",
        "thorough_cmd": f"timeout 7200 ./check {pid} --tier thorough",
        "evidence_file": f"/verif/evidence/{pid}.json",
        "replay_cmd_template": f"./check {pid} --replay {{path}}",
        "engine": c["engine"],
        "level_claimed": {"category": c["level"], "text": c["level_text"], "design_ref": c["design_ref"]},
        "level_note": c["level_note"],
        "technique": c["technique"],
    })
m = {
    "version": 1,
    "setup_cmd": "/venv/bin/python -c \"import numpy, scipy, dask, astropy, baseband, cloudpickle; import sys; sys.path.insert(0, '/repo'); import pulsarbat\"",
    "hooks": {
        "guard": "PULSARBAT_VERIF",
        "enable": "nothing to enable: no hooks were added to /repo; every seam used already exists in the code (scheduler= argument of compute/persist, overridable BasebandReader._get_fh, module attribute readers._baseband_readers.baseband, BaseReader._read_array, lock= argument, sys.settrace). PULSARBAT_VERIF is reserved and unused.",
        "baseline_off_cmd": "cd /repo && /venv/bin/python -m pytest -ra -q -p no:cacheprovider --timeout=900 --continue-on-collection-errors",
        "source_commits": [],
        "add_only": True,
    },
    "engines": MANIFEST_TEXT["engines"],
    "checks": checks,
    "notes": MANIFEST_TEXT["notes"],
    "not_applicable": [{"property_id": k, "reason": v} for k, v in sorted(NOT_APPLICABLE.items())
                       if k not in CONFIG],
}
with open(os.path.join(HERE, "MANIFEST.json"), "w") as f:
    json.dump(m, f, indent=1)
print("wrote MANIFEST.json:", [c["property_id"] for c in checks], len(m["not_applicable"]), "n/a")
