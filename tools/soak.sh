#!/bin/sh
# tools/soak.sh [first_seed] [count]   run the three quick checks under several VERIF_SEED values
# (latent false alarms of a generator change show up only on some seeds), then the determinism
# and sensitivity self-tests. Everything must stay silent about VIOLATION / HARNESS-ERROR.
cd "$(dirname "$0")/.." || exit 2
first=${1:-1}; count=${2:-4}; bad=0
s=$first
while [ "$s" -lt $((first + count)) ]; do
  for p in C09 C11 C14; do
    out=$(VERIF_SEED=$s ./check $p --no-evidence 2>&1 | grep -a -v Warn)
    echo "$out" | grep -a "runs," | cut -c1-120
    if echo "$out" | grep -a -q "^VIOLATION\|HARNESS-ERROR"; then echo "$out" | grep -a "VIOLATION\|HARNESS\| @ " | cut -c1-300; bad=1; fi
  done
  s=$((s + 1))
done
./selftest determinism --n 160 | grep -a -v Warn
exit $bad
